"""C13 (level-1 BLAS): argument marshalling of axpy, scal, copy, swap, dot on 1-D views of double (any positive stride, sizes >= 0).

The Fortran routines daxpy_/dscal_/dcopy_/dswap_/ddot_ are ASSUMED contracts (reference BLAS: they act on the n logical elements
x[i*incx], y[i*incy]) and are replaced by recording stubs.  Proved for every pair of accepted views: exactly one BLAS call; n is the number of
elements of the views; each vector is handed over as (first element, its own stride) and in the right role (x input, y output; for swap both);
the scalar is the caller's; dot stores the BLAS result in the caller's result object.  Only the output view is handed over as an output.
The numerical half (what the routine computes on those n elements) is BLAS's."""
from common import *
from vf import Stub

Group('blas1', ['boost/multi/array.hpp', 'boost/multi/adaptors/blas/axpy.hpp', 'boost/multi/adaptors/blas/scal.hpp', 'boost/multi/adaptors/blas/copy.hpp',
                'boost/multi/adaptors/blas/swap.hpp', 'boost/multi/adaptors/blas/dot.hpp'], profile='O', libs=['-lopenblas'], prelude='''
using V1 = multi::subarray<double, 1, double*>;
using C1 = multi::const_subarray<double, 1, double*>;
''', noinline=[r'^_ZNSt7__cxx11', r'^_ZSt9to_string', r'^_ZNSt11logic_error', r'^_ZStplI'], cut=[r'_ZNSt7__cxx11', r'_ZSt9to_string', r'_ZNSt11logic_error', r'_ZSt.*terminate'])
MS1, CS1 = MSUB(1), SUB(1)
def vec(v):
    return ('PTR_SANE(%s->base_) && INOFF(%s->nelems_) && 0 < %s->stride_ && %s->stride_ < SMALL && %s->offset_ == 0 && %s->nelems_ == MUL(g_n, %s->stride_) && %s->sub_.offset_ == 0 && %s->sub_.nelems_ == 1' % ((v,)*9))
LEM = lambda vs: [l % (v,) for v in vs for l in ('LEMMA_MULDIV(g_n, %s->stride_)', 'LEMMA_MULREM(g_n, %s->stride_)', 'LEMMA_MULZERO(g_n, %s->stride_)', 'LEMMA_MUL0(%s->stride_)', 'LEMMA_DIV0(%s->stride_)')]
COMMON = dict(group='blas1', ghosts=[(I64, 'g_n')], mode='uf', objbits=12, timeout=900, cbmc_flags=['--no-pointer-check'], unwind=3, assigns=[], reject_ok=True, solvers=('cvc5', 'cadical'))
XY = [('g_N', 0, None, 'deref'), ('g_X', 1, None, 'ptr'), ('g_incx', 2, None, 'deref'), ('g_Y', 3, None, 'ptr'), ('g_incy', 4, None, 'deref')]
xy_ok = 'g_N == g_n && (void*)g_X == (void*)x->base_ && g_incx == x->stride_ && (void*)g_Y == (void*)y->base_ && g_incy == y->stride_'

Check('G_axpy', ['C13'], fn='w_G_axpy', params=['a', 'x', 'y'],
      wrapper=('void', 'double a, C1 const* x, V1* y', 'multi::blas::axpy(a, *x, *y);'), cxx={'x': CS1, 'y': MS1},
      stubs=[Stub('daxpy_', record=[('g_N', 0, None, 'deref'), ('g_alpha', 1, None, 'deref'), ('g_X', 2, None, 'ptr'), ('g_incx', 3, None, 'deref'), ('g_Y', 4, None, 'ptr'), ('g_incy', 5, None, 'deref')], count='g_calls')],
      requires=['0 <= g_n && g_n < SMALL && a == a', vec('x'), vec('y'), '(void*)x->base_ != (void*)y->base_'], lemmas=LEM(['x', 'y']),
      ensures=[('y += a*x: exactly one BLAS call', 'EXC != 0 || g_calls == 1'),
               ('n is the common size; x is the input (first element, own stride), y the in/out vector; the scalar is the caller\'s', 'IMPLIES(g_calls == 1, %s && g_alpha == a)' % xy_ok)],
      covers=['g_calls == 1 && g_n > 2 && x->stride_ > 1 && y->stride_ > 2', 'g_calls == 1 && g_n == 0'], **COMMON)
Check('G_scal', ['C13'], fn='w_G_scal', params=['a', 'x'],
      wrapper=('void', 'double a, V1* x', 'multi::blas::scal(a, *x);'), cxx={'x': MS1},
      stubs=[Stub('dscal_', record=[('g_N', 0, None, 'deref'), ('g_alpha', 1, None, 'deref'), ('g_X', 2, None, 'ptr'), ('g_incx', 3, None, 'deref')], count='g_calls')],
      requires=['0 <= g_n && g_n < SMALL && a == a', vec('x')], lemmas=LEM(['x']),
      ensures=[('x *= a: exactly one BLAS call', 'EXC != 0 || g_calls == 1'),
               ('all n elements of the view, first element and own stride, the caller\'s scalar', 'IMPLIES(g_calls == 1, g_N == g_n && (void*)g_X == (void*)x->base_ && g_incx == x->stride_ && g_alpha == a)')],
      covers=['g_calls == 1 && g_n > 2 && x->stride_ > 1', 'g_calls == 1 && g_n == 0'], **COMMON)
Check('G_copy', ['C13'], fn='w_G_copy', params=['x', 'y'],
      wrapper=('void', 'C1 const* x, V1* y', 'multi::blas::copy(*x, *y);'), cxx={'x': CS1, 'y': MS1},
      stubs=[Stub('dcopy_', record=XY, count='g_calls')],
      requires=['0 <= g_n && g_n < SMALL', vec('x'), vec('y'), '(void*)x->base_ != (void*)y->base_'], lemmas=LEM(['x', 'y']),
      ensures=[('y = x: exactly one BLAS call', 'EXC != 0 || g_calls == 1'), ('x is the source, y the destination, each with its own stride, n elements', 'IMPLIES(g_calls == 1, %s)' % xy_ok)],
      covers=['g_calls == 1 && g_n > 2 && x->stride_ > 1 && y->stride_ > 2'], **COMMON)
Check('G_swap', ['C13'], fn='w_G_swap', params=['x', 'y'],
      wrapper=('void', 'V1* x, V1* y', 'multi::blas::swap(*x, *y);'), cxx={'x': MS1, 'y': MS1},
      stubs=[Stub('dswap_', record=XY, count='g_calls')],
      requires=['0 <= g_n && g_n < SMALL', vec('x'), vec('y'), '(void*)x->base_ != (void*)y->base_'], lemmas=LEM(['x', 'y']),
      ensures=[('swap(x, y): exactly one BLAS call', 'EXC != 0 || g_calls == 1'), ('both views with their own strides, n elements', 'IMPLIES(g_calls == 1, %s)' % xy_ok)],
      covers=['g_calls == 1 && g_n > 2 && x->stride_ > 1 && y->stride_ > 2'], **COMMON)
Check('G_dot', ['C13'], fn='w_G_dot', params=['x', 'y', 'res'],
      wrapper=('void', 'C1 const* x, C1 const* y, double* res', 'multi::blas::dot(*x, *y, *res);'), cxx={'x': CS1, 'y': CS1},
      ghosts=[(I64, 'g_n'), ('double', 'g_dotv')],
      stubs=[Stub('ddot_', record=XY, count='g_calls', body='return g_dotv;', ret=None)],
      requires=['0 <= g_n && g_n < SMALL && g_dotv == g_dotv', vec('x'), vec('y')], lemmas=LEM(['x', 'y']),
      ensures=[('res = x . y: exactly one BLAS call', 'EXC != 0 || g_calls == 1'), ('both vectors with their own strides, n elements', 'IMPLIES(g_calls == 1, %s)' % xy_ok),
               ('the BLAS result is stored in the caller\'s result object', 'IMPLIES(g_calls == 1, *res == g_dotv)')],
      covers=['g_calls == 1 && g_n > 2 && x->stride_ > 1 && y->stride_ > 2'],
      **{k: v for k, v in COMMON.items() if k not in ('ghosts', 'assigns')}, assigns=['*res'])
