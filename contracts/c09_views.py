"""C05 (and the proxy-reference part of C03): assignment through views, over the ghost heap of engine B (bounded).

dst and src are SYMBOLIC views: any base offset and any strides such that their elements are distinct and inside their block -- this covers
contiguous, transposed/rotated, strided and sub-block layouts at once.  Extents are bounded (D=1: <=4, D=2: <=2x3, D=3: <=1x2x3) so that the
real std::copy / swap_ranges loops over elements() are fully unwound.  Proved: exactly the viewed elements of dst receive the values of the
source elements with the same index tuple (logical order, whatever the two layouts), every other element of the underlying storage keeps its
value, the source is unchanged, nothing is constructed, destroyed, allocated or released, the view objects themselves are not rebound."""
from common import *
from vf import Stub, CHECKS
import itertools
from c08_lifecycle import HOOKS, COMMON, G_ELEMS, INIT, total_live, owned_blocks

BNDS = {1: (4,), 2: (2, 3), 3: (1, 2, 3)}
def VS(D, const): return ('re:boost::multi::%s<E,%d,E\\*(,boost::multi::layout_t<%d>)?>' % ('const_subarray' if const else 'subarray', D, D))
def tuples(D): return list(itertools.product(*[range(b) for b in BNDS[D]]))
def valid(t, D, n='g_n'): return ' && '.join('%d < %s%d' % (t[k], n, k) for k in range(D))
def off(v, t, D):   # element offset of tuple t inside the block: (base offset) + sum t_k * stride_k
    return '(g_o%s + %s)' % (v, ' + '.join('%d * %s' % (t[k], lp(v, k, 'stride_')) for k in range(D)))
def view_setup(v, blk, D):
    """make *v a view of block blk with symbolic strides/offset; all addressed elements distinct and inside the block"""
    T = tuples(D); cons = ['0 <= g_o%s && g_o%s < G_ELEMS' % (v, v)] + ['g_s%s%d != 0 && -G_ELEMS < g_s%s%d && g_s%s%d < G_ELEMS' % (v, k, v, k, v, k) for k in range(D)]
    s = ['__CPROVER_assume(%s);' % ' && '.join(cons)]
    s.append('%s->base_ = (void*)&G_mem[%d][g_o%s];' % (v, blk, v))
    for k in range(D):
        s.append('%s = g_s%s%d; %s = 0; %s = g_n%d * g_s%s%d;' % (lp(v, k, 'stride_'), v, k, lp(v, k, 'offset_'), lp(v, k, 'nelems_'), k, v, k))
    s.append('%s = 0; %s = 1;' % (lp(v, D, 'offset_'), lp(v, D, 'nelems_')))
    cons = []
    for t in T: cons.append('IMPLIES(%s, 0 <= %s && %s < G_ELEMS)' % (valid(t, D), off(v, t, D), off(v, t, D)))
    for t, u in itertools.combinations(T, 2): cons.append('IMPLIES(%s && %s, %s != %s)' % (valid(t, D), valid(u, D), off(v, t, D), off(v, u, D)))
    s.append('__CPROVER_assume(%s);' % ' && '.join(cons))
    return ' '.join(s)
def block_setup(blk):
    return 'G_blk[%d].owned = 1; G_blk[%d].size = G_ELEMS; G_blk[%d].alloc_id = 0; for(int i_ = 0; i_ < G_ELEMS; i_++){ G_blk[%d].live[i_] = 1; G_blk[%d].val[i_] = nondet_int32_t(); } ' % ((blk,)*5)
SNAP2 = 'for(int i_ = 0; i_ < G_ELEMS; i_++){ g_va[i_] = G_blk[0].val[i_]; g_vb[i_] = G_blk[1].val[i_]; } '
def inview(v, p, D): return '(' + ' || '.join('(%s && %s == %d)' % (valid(t, D), off(v, t, D), p) for t in tuples(D)) + ')'

for D in (1, 2, 3):
    G = [(I64, 'g_n%d' % k) for k in range(D)] + [(I64, 'g_od'), (I64, 'g_os')] + [(I64, 'g_s%s%d' % (v, k)) for v in 'ds' for k in range(D)]
    bnd = ' && '.join('0 <= g_n%d && g_n%d <= %d' % (k, k, BNDS[D][k]) for k in range(D))
    setup = ('__CPROVER_assume(%s); ' % bnd + INIT + 'G_next = 2; ' + block_setup(0) + block_setup(1) + view_setup('d', 0, D) + view_setup('s', 1, D) + SNAP2 + 'G_may_fail = 0;')
    same_view = lambda v, snap: ' && '.join(['%s == OLD(%s)' % (lp(v, k, x), lp(v, k, x)) for k in range(D) for x in ('stride_', 'offset_', 'nelems_')] + ['%s->base_ == OLD(%s->base_)' % (v, v)])
    no_lifecycle = 'G_nalloc == 0 && G_ndealloc == 0 && G_nctor == 0 && G_ndtor == 0 && %s == 2 && %s == 2*G_ELEMS' % (owned_blocks(), total_live())
    for nm, srcconst, call, tag in (('assign', True, '*d = *s;', 'operator=(const_subarray const&)'), ('assign_rv', False, '*d = std::move(*s);', 'operator=(subarray&&)'),
                                    ('assign_rvdst', True, 'std::move(*d) = *s;', 'operator=(const_subarray const&) && (temporary destination view, e.g. A.transposed() = B)'),
                                    ('assign_sub', False, '*d = *s;', 'operator=(subarray const&) & (named mutable source view)'),
                                    ('assign_rv_rvdst', False, 'std::move(*d) = std::move(*s);', 'operator=(const_subarray&&) && (both views temporaries)'),
                                    ('elements_assign', False, 'd->elements() = std::move(*s).elements();', 'elements() = elements()')):
        Check('V%d_%s' % (D, nm), ['C05', 'C03'], params=['d', 's'], fn='w_V%d_%s' % (D, nm),
              wrapper=('void', 'multi::subarray<E, %d, E*>* d, multi::%s<E, %d, E*>%s* s' % (D, 'const_subarray' if srcconst else 'subarray', D, ' const' if srcconst else ''), call),
              cxx={'d': VS(D, False), 's': VS(D, srcconst)}, ghosts=G, setup=setup, requires=[bnd, 'EXC == 0'],
              ensures=[('every viewed element of the destination receives the value of the source element with the same index tuple (logical order, any two layouts)',
                        'EXC == 0 && ' + ' && '.join('IMPLIES(%s, G_blk[0].val[%s] == g_vb[%s])' % (valid(t, D), off('d', t, D), off('s', t, D)) for t in tuples(D))),
                       ('every other element of the underlying storage is untouched', ' && '.join('IMPLIES(!%s, G_blk[0].val[%d] == g_va[%d])' % (inview('d', p, D), p, p) for p in range(G_ELEMS))),
                       ('the source is unchanged', ' && '.join('G_blk[1].val[%d] == g_vb[%d]' % (p, p) for p in range(G_ELEMS))),
                       ('nothing is constructed, destroyed, allocated or released; exactly one assignment per viewed element', no_lifecycle + ' && G_nassign == ' + ' * '.join('g_n%d' % k for k in range(D))),
                       ('the views are not rebound or resized', same_view('d', 0) + ' && ' + same_view('s', 0))],
              covers=[' && '.join('g_n%d == %d' % (k, BNDS[D][k]) for k in range(D)) + (' && d->stride_ < d->sub_.stride_' if D > 1 else ''), 'g_n0 == 0'] + (['g_n0 == 3 && d->stride_ == 2', 'g_n0 == 2 && d->stride_ < 0'] if D == 1 else []),
              assigns=[], **COMMON, tier='quick' if (D == 1 or (D == 2 and nm in ('assign', 'assign_rvdst', 'assign_sub', 'elements_assign'))) else 'thorough')
    # fill: every viewed element gets the value, nothing else is touched  (D = 1 only: fill(scalar) on a D >= 2 view does not compile at the pinned commit,
    # adl_fill_n assigns the scalar to sub-views)
    if D == 1: Check('V%d_fill' % D, ['C05'], params=['d', 's', 'fv'], fn='w_V%d_fill' % D,
          wrapper=('void', 'multi::subarray<E, %d, E*>* d, multi::subarray<E, %d, E*>* s, int fv' % (D, D), '(void)s; d->fill(E(FV(fv)));'),
          cxx={'d': VS(D, False), 's': VS(D, False)}, ghosts=G, setup=setup, requires=[bnd, 'EXC == 0'],
          ensures=[('every viewed element of the destination equals the fill value', 'EXC == 0 && ' + ' && '.join('IMPLIES(%s, G_blk[0].val[%s] == fv)' % (valid(t, D), off('d', t, D)) for t in tuples(D))),
                   ('every other element of the underlying storage is untouched', ' && '.join('IMPLIES(!%s, G_blk[0].val[%d] == g_va[%d])' % (inview('d', p, D), p, p) for p in range(G_ELEMS))),
                   ('nothing in the heap is constructed, destroyed, allocated or released; exactly one assignment per viewed element', no_lifecycle + ' && G_nassign == ' + ' * '.join('g_n%d' % k for k in range(D))),
                   ('the view is not rebound or resized', same_view('d', 0))],
          covers=[' && '.join('g_n%d == %d' % (k, BNDS[D][k]) for k in range(D)), 'g_n0 == 0'],
          assigns=[], **COMMON, tier='quick' if D <= 2 else 'thorough')
    # swap of two views: values exchanged element by element
    Check('V%d_swap' % D, ['C05', 'C03'], params=['d', 's'], fn='w_V%d_swap' % D,
          wrapper=('void', 'multi::subarray<E, %d, E*>* d, multi::subarray<E, %d, E*>* s' % (D, D), 'swap(std::move(*d), std::move(*s));'),
          cxx={'d': VS(D, False), 's': VS(D, False)}, ghosts=G, setup=setup, requires=[bnd, 'EXC == 0'],
          ensures=[('corresponding elements (same index tuple) of the two views are exchanged',
                    'EXC == 0 && ' + ' && '.join('IMPLIES(%s, G_blk[0].val[%s] == g_vb[%s] && G_blk[1].val[%s] == g_va[%s])' % (valid(t, D), off('d', t, D), off('s', t, D), off('s', t, D), off('d', t, D)) for t in tuples(D))),
                   ('every other element of both storages is untouched', ' && '.join('IMPLIES(!%s, G_blk[0].val[%d] == g_va[%d]) && IMPLIES(!%s, G_blk[1].val[%d] == g_vb[%d])' % (inview('d', p, D), p, p, inview('s', p, D), p, p) for p in range(G_ELEMS))),
                   ('no allocation, nothing released, no element left dead', 'G_nalloc == 0 && G_ndealloc == 0 && %s == 2 && %s == 2*G_ELEMS' % (owned_blocks(), total_live()))],
          covers=[' && '.join('g_n%d == %d' % (k, BNDS[D][k]) for k in range(D))],
          assigns=[], **COMMON, tier='quick' if D <= 2 else 'thorough')

    # swap of two views of ONE storage that may share cells only at corresponding index tuples (e.g. row k and column k of a square matrix from
    # the diagonal on: the pair an in-place transposition swaps); catches seed C05-4 (a "self-swap" shortcut keyed on the base pointer alone)
    if D <= 2:
        cross = ' && '.join('IMPLIES(%s && %s, %s != %s)' % (valid(t, D), valid(u, D), off('d', t, D), off('s', u, D)) for t in tuples(D) for u in tuples(D) if t != u)
        setup1 = ('__CPROVER_assume(%s); ' % bnd + INIT + 'G_next = 2; ' + block_setup(0) + block_setup(1) + view_setup('d', 0, D) + view_setup('s', 0, D) + '__CPROVER_assume(%s); ' % cross + SNAP2 + 'G_may_fail = 0;')
        Check('V%d_swap_overlap' % D, ['C05', 'C03'], params=['d', 's'], fn='w_V%d_swap' % D, wrapper=None,
              cxx={'d': VS(D, False), 's': VS(D, False)}, ghosts=G, setup=setup1, requires=[bnd, 'EXC == 0'],
              ensures=[('corresponding elements (same index tuple) of the two views are exchanged, also when the views start at the same element',
                        'EXC == 0 && ' + ' && '.join('IMPLIES(%s, G_blk[0].val[%s] == g_va[%s] && G_blk[0].val[%s] == g_va[%s])' % (valid(t, D), off('d', t, D), off('s', t, D), off('s', t, D), off('d', t, D)) for t in tuples(D))),
                       ('every other element of the storage is untouched', ' && '.join('IMPLIES(!%s && !%s, G_blk[0].val[%d] == g_va[%d])' % (inview('d', p, D), inview('s', p, D), p, p) for p in range(G_ELEMS))),
                       ('no allocation, nothing released, no element left dead', 'G_nalloc == 0 && G_ndealloc == 0 && %s == 2 && %s == 2*G_ELEMS' % (owned_blocks(), total_live()))],
              covers=['g_od == g_os && g_n0 > 1 && g_sd0 != g_ss0', 'g_od != g_os && g_n0 > 1'],
              assigns=[], **COMMON, tier='quick')
# element_moved(): a view over move pointers with exactly the layout and first element of the source view (moving from it moves from exactly the viewed elements)
Group('views', ['boost/multi/array.hpp'], prelude="""
template<multi::dimensionality_type D> using MSd = multi::subarray<double, D, double*>;
template<multi::dimensionality_type D> using MVd = multi::subarray<double, D, multi::move_ptr<double, double*>>;
""")
for D in (1, 2, 3):
    Check('V%d_element_moved' % D, ['C05'], 'views', params=['ret', 'self'],
          fn_re=r'boost::multi::subarray<double, %dl, double\*, boost::multi::layout_t<%dl, long> >::element_moved\(\) &' % (D, D),
          wrapper=('void', 'MVd<%d>* ret, MSd<%d>* self' % (D, D), 'new(ret) MVd<%d>(self->element_moved());' % D),
          cxx={'self': MSUB(D), 'ret': 're:boost::multi::subarray<double,%d,boost::multi::move_ptr<double(,double\\*)?>(,boost::multi::layout_t<%d>)?>' % (D, D)},
          requires=['1'],
          ensures=[('the moved view has the strides, offsets and spans of the source view in every dimension', ' && '.join(same_dim('ret', k, 'self', k) for k in range(D))),
                   ('and starts at the same element', 'ret->base_._M_current == self->base_')],
          assigns=['*ret'], mode='exact')
