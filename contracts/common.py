"""shared helpers for the contract files: layout member paths, WF predicate, address expressions"""
from vf import Check, Group, CHECKS, GROUPS

I64 = 'I64'
def LAY(D): return 'boost::multi::layout_t<%d>' % D
import re as _re
def REC(kind, D, T='double', ptr=None):
    """record-name pattern (clang prints default template arguments inconsistently)"""
    ptr = ptr or (T + '*')
    e = _re.escape
    return 're:boost::multi::%s<%s,%d(,%s)?(,boost::multi::layout_t<%d>)?>' % (kind, e(T), D, e(ptr), D) if (kind == 'const_subarray' and ptr == 'const' + T + '*') \
        else 're:boost::multi::%s<%s,%d,%s(,boost::multi::layout_t<%d>)?>' % (kind, e(T), D, e(ptr), D)
def SUB(D, T='double'): return REC('const_subarray', D, T)
def MSUB(D, T='double'): return REC('subarray', D, T)
def CSUB(D, T='double'): return REC('const_subarray', D, T, 'const' + T + '*')

def lp(var, k, fld, pre=''):
    """member `fld` (stride_/offset_/nelems_) of dimension k of the layout reachable as var->pre"""
    return '%s->%s%s%s' % (var, pre, 'sub_.'*k, fld)

def ghosts_fn(D, f='g_f', n='g_n'):
    return [(I64, '%s%d' % (f, k)) for k in range(D)] + [(I64, '%s%d' % (n, k)) for k in range(D)]

def WF(var, D, pre='', f='g_f', n='g_n', zero_based=False):
    """WF_D(view; f, n): nelems_k = n_k*stride_k, offset_k = f_k*stride_k, n_k >= 0, stride_k != 0, all magnitudes < BIG"""
    cs = []
    for k in range(D):
        st, of, ne = lp(var, k, 'stride_', pre), lp(var, k, 'offset_', pre), lp(var, k, 'nelems_', pre)
        F, N = '%s%d' % (f, k), '%s%d' % (n, k)
        cs.append('%s == MUL(%s,%s) && %s == MUL(%s,%s) && %s >= 0 && INR(%s) && INR(%s) && INR(%s) && %s != 0'
                  % (ne, N, st, of, F, st, N, N, F, st, st))
        if zero_based: cs.append('%s == 0' % F)
    return ' && '.join(cs)

def WF_lemmas(var, D, pre='', f='g_f', n='g_n', dims=None):
    """standard lemma instances about the (n_k, f_k, stride_k) triples of a WF view"""
    out = []
    for k in (range(D) if dims is None else dims):
        st = lp(var, k, 'stride_', pre)
        F, N = '%s%d' % (f, k), '%s%d' % (n, k)
        out += ['LEMMA_MULDIV(%s,%s)' % (N, st), 'LEMMA_MULDIV(%s,%s)' % (F, st), 'LEMMA_MULREM(%s,%s)' % (N, st),
                'LEMMA_MULREM(%s,%s)' % (F, st), 'LEMMA_MULZERO(%s,%s)' % (N, st), 'LEMMA_DIST(%s,%s,%s)' % (F, N, st),
                'LEMMA_MULDIV(%s+%s,%s)' % (F, N, st), 'LEMMA_MULREM(%s+%s,%s)' % (F, N, st)]
    return out

def same_dim(a, ka, b, kb, prea='', preb=''):
    return ' && '.join('%s == %s' % (lp(a, ka, x, prea), lp(b, kb, x, preb)) for x in ('stride_', 'offset_', 'nelems_'))
