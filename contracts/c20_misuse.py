"""C20 part 2: out-of-domain use is stopped by a library assertion *before* an out-of-range address is produced.

Each check is a contract with the NEGATED domain condition and `ensures 0`: because __assert_fail is translated as
assert(0); assume(0), proving `ensures 0` shows that no execution returns from the function -- every path hits an assertion
first.  The driver additionally demands that at least one library assertion is reachable (it fires), so the check is not vacuous.
Configuration: assertions enabled (the library's default)."""
from common import *
import re
E = re.escape

def CSn(D): return r'boost::multi::const_subarray<double, %dl, double\*, boost::multi::layout_t<%dl, long> >' % (D, D)

for D in (1, 2, 3):
    base_req = [WF('self', D), 'self->base_ != 0']
    lem = WF_lemmas('self', D, dims=[0])
    common = dict(group='subarray', ghosts=ghosts_fn(D), lemmas=lem, ensures=[('never returns: a library assertion stops the access first', '0')], mode='uf', misuse=True)
    for name, fnm in (('at', 'at_aux_'), ('index', r'operator\[\]')):
        if D > 1:
            Check('M%d_%s_oob' % (D, name), ['C20'], params=['ret', 'self', 'idx'], fn_re=CSn(D) + r'::%s\(long\) const( &)?' % fnm,
                  wrapper=('void', 'multi::const_subarray<double,%d,double*>* ret, multi::const_subarray<double,%d,double*> const* self, multi::index idx' % (D-1, D),
                           'new(ret) multi::const_subarray<double,%d,double*>(self->%s(idx));' % (D-1, 'at_aux_' if name == 'at' else 'operator[]')),
                  cxx={'self': SUB(D), 'ret': SUB(D-1)}, requires=base_req + ['INR(idx) && (idx < g_f0 || idx >= g_f0 + g_n0)'], assigns=['*ret'], **common)
        else:
            Check('M1_%s_oob' % name, ['C20'], params=['self', 'idx'], fn_re=CSn(1) + r'::%s\(long\) const( &)?' % fnm,
                  wrapper=('double const*', 'multi::const_subarray<double,1,double*> const* self, multi::index idx', 'return &self->%s(idx);' % ('at_aux_' if name == 'at' else 'operator[]')),
                  cxx={'self': SUB(1)}, requires=base_req + ['INR(idx) && (idx < g_f0 || idx >= g_f0 + g_n0)'], assigns=[], **common)
    if D > 1:   # the D=1 sliced/dropped carry no assertion in the library (recorded in DESIGN as an observation, not claimed)
        Check('M%d_sliced_oob' % D, ['C20'], params=['ret', 'self', 'first', 'last'], fn_re=CSn(D) + r'::sliced_aux_\(long, long\) const',
              wrapper=('void', 'multi::const_subarray<double,%d,double*>* ret, multi::const_subarray<double,%d,double*> const* self, multi::index first, multi::index last' % (D, D),
                       'new(ret) multi::const_subarray<double,%d,double*>(self->sliced_aux_(first, last));' % D),
              cxx={'self': SUB(D), 'ret': SUB(D)}, requires=base_req + ['INR(first) && INR(last) && first < last && (first < g_f0 || last > g_f0 + g_n0)'], assigns=['*ret'], **common)
        Check('M%d_dropped_oob' % D, ['C20'], params=['ret', 'self', 'n'], fn_re=CSn(D) + r'::dropped_aux_\(long\) const',
              wrapper=('void', 'multi::const_subarray<double,%d,double*>* ret, multi::const_subarray<double,%d,double*> const* self, multi::index n' % (D, D),
                       'new(ret) multi::const_subarray<double,%d,double*>(self->dropped_aux_(n));' % D),
              cxx={'self': SUB(D), 'ret': SUB(D)}, requires=base_req + ['INR(n) && n > g_n0'], assigns=['*ret'], **common)
    Check('M%d_taked_oob' % D, ['C20'], params=['ret', 'self', 'n'], fn_re=CSn(D) + r'::taked_aux_\(long\) const',
          wrapper=('void', 'multi::const_subarray<double,%d,double*>* ret, multi::const_subarray<double,%d,double*> const* self, multi::index n' % (D, D),
                   'new(ret) multi::const_subarray<double,%d,double*>(self->taked_aux_(n));' % D),
          cxx={'self': SUB(D), 'ret': SUB(D)}, requires=base_req + ['INR(n) && n > g_n0'], assigns=['*ret'], **common)
    Check('M%d_partitioned_bad' % D, ['C20'], params=['ret', 'self', 'n'], fn_re=CSn(D) + r'::partitioned_aux_\(long\) const',
          wrapper=('void', 'multi::subarray<double,%d,double*>* ret, multi::const_subarray<double,%d,double*> const* self, multi::index n' % (D+1, D),
                   'new(ret) multi::subarray<double,%d,double*>(self->partitioned_aux_(n));' % (D+1)),
          cxx={'self': SUB(D), 'ret': MSUB(D+1)}, requires=base_req + ['n == 0'], assigns=['*ret'], **common)

# C20 part 3: the contracts of C01/C02/C19 hold unchanged with -DNDEBUG and with -DBOOST_MULTI_ASSERT_DISABLE
# (the postconditions pin the observable result, so equal contracts in the three configurations = identical results of valid programs)
def config_variants():
    for c in list(CHECKS.values()):
        if c.misuse or c.config != 'debug' or '@' in c.id: continue
        if not ({'C01', 'C02', 'C19'} & set(c.props)): continue
        if c.stubs or c.bounded: continue      # engine-A contracts only (view algebra, iterators); skeleton / bounded checks have their own assertions as obligations
        for cfg, tag in (('ndebug', 'ndebug'), ('assert_disable', 'nassert')):
            quick = c.id.startswith(('S2_', 'I2_', 'E2_', 'L2_'))
            Check(c.id + '@' + tag, ['C20'], c.group, c.params, None, fn=c.fn, fn_re=c.fn_re, cxx=c.cxx, ghosts=c.ghosts, requires=c.requires, lemmas=c.lemmas,
                  ensures=c.ensures, assigns=c.assigns, mode=c.mode, setup=c.setup, tier='quick' if quick else 'thorough', config=cfg, solvers=c.solvers, timeout=c.timeout, unwind=c.unwind, objbits=c.objbits, cbmc_flags=c.cbmc_flags,
                  note='same contract, build configuration ' + cfg)

import vf as _vf
_vf.POST.append(config_variants)
