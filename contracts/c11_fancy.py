"""C11 (bounded): owning arrays over a BOUNDS-TRACKING FANCY POINTER.

FP<T> is a provenance pointer {block start, logical index, block size} whose arithmetic and comparison are its own members and whose
dereference calls the hook fp_deref(base, idx, n).  It has no conversion to or from a raw address (construction from a raw block is private to
the allocator), so a library path that needs a raw address does not compile -- the type-level half of the property, an extraction break (exit 2)
rather than a verdict.  AF<T> hands out FP<T> into a pool of two blocks of G_CAP cells (extern "C" objects, so the contracts can name them).
Hooks (recording stubs, trusted, below): fp_deref asserts "dereference inside the block the pointer was derived from" -- the bounds-tracking half
of the property -- and fp_take(n) hands out the next pool block.
Checked (elements `long`, trivially copyable; D = 1, 2; sizes bounded by the pool; loops fully unwound => BOUNDED):
  construction with a fill value, reextent(x, v), reextent(x), copy construction, element access: same observable contents as the raw-pointer
  semantics of the property (requested extents; every element the fill value / the kept value), every dereference in bounds -- including
  empty shapes, where the array owns no storage and nothing may be dereferenced at all."""
from common import *
from vf import Stub

G_CAP = 6
PRE = r'''
extern "C" { void fp_deref(void const* base, long idx, long n); long* fp_take(unsigned long n); void fp_give(void const* base, unsigned long n);
             }
template<class T> class FP {
	T* base_ = nullptr; std::ptrdiff_t idx_ = 0; std::ptrdiff_t n_ = 0;
	template<class> friend class FP; template<class> friend struct AF;
	FP(T* base, std::ptrdiff_t idx, std::ptrdiff_t n) : base_{base}, idx_{idx}, n_{n} {}
 public:
	using difference_type = std::ptrdiff_t; using value_type = std::remove_cv_t<T>; using element_type = T; using pointer = FP;
	using reference = std::add_lvalue_reference_t<T>; using iterator_category = std::random_access_iterator_tag;
	template<class U> using rebind = FP<U>;
	FP() = default;
	FP(std::nullptr_t) {}  // NOLINT
	template<class U, std::enable_if_t<std::is_convertible_v<U*, T*> && !std::is_same_v<U, T>, int> = 0> FP(FP<U> const& o) : base_{o.base_}, idx_{o.idx_}, n_{o.n_} {}  // NOLINT
	auto operator*() const -> reference { fp_deref(base_, idx_, n_); return base_[idx_]; }
	auto operator->() const -> T* { fp_deref(base_, idx_, n_); return base_ + idx_; }
	auto operator[](difference_type k) const -> reference { return *(*this + k); }
	auto operator+=(difference_type k) -> FP& { idx_ += k; return *this; }
	auto operator-=(difference_type k) -> FP& { idx_ -= k; return *this; }
	auto operator++() -> FP& { ++idx_; return *this; }
	auto operator--() -> FP& { --idx_; return *this; }
	auto operator++(int) -> FP { FP r{*this}; ++idx_; return r; }
	auto operator--(int) -> FP { FP r{*this}; --idx_; return r; }
	friend auto operator+(FP p, difference_type k) -> FP { p += k; return p; }
	friend auto operator+(difference_type k, FP p) -> FP { p += k; return p; }
	friend auto operator-(FP p, difference_type k) -> FP { p -= k; return p; }
	friend auto operator-(FP const& a, FP const& b) -> difference_type { return a.idx_ - b.idx_; }
	template<class U> auto operator==(FP<U> const& o) const -> bool { return base_ == o.base_ && idx_ == o.idx_; }
	template<class U> auto operator!=(FP<U> const& o) const -> bool { return !(*this == o); }
	template<class U> auto operator< (FP<U> const& o) const -> bool { return idx_ <  o.idx_; }
	template<class U> auto operator> (FP<U> const& o) const -> bool { return idx_ >  o.idx_; }
	template<class U> auto operator<=(FP<U> const& o) const -> bool { return idx_ <= o.idx_; }
	template<class U> auto operator>=(FP<U> const& o) const -> bool { return idx_ >= o.idx_; }
	explicit operator bool() const { return base_ != nullptr; }
};
template<class T> struct AF {
	using value_type = T; using pointer = FP<T>; using const_pointer = FP<T const>; using void_pointer = FP<void>; using const_void_pointer = FP<void const>;
	using size_type = std::size_t; using difference_type = std::ptrdiff_t;
	template<class U> struct rebind { using other = AF<U>; };
	AF() = default;
	template<class U> AF(AF<U> const& /*other*/) {}  // NOLINT
	auto allocate(size_type n) -> pointer { return pointer{reinterpret_cast<T*>(fp_take(n)), 0, static_cast<std::ptrdiff_t>(n)}; }
	auto allocate(size_type n, const_void_pointer /*hint*/) -> pointer { return allocate(n); }
	void deallocate(pointer p, size_type n) { fp_give(p.base_, n); }
	friend auto operator==(AF const& /*a*/, AF const& /*b*/) -> bool { return true; }
	friend auto operator!=(AF const& /*a*/, AF const& /*b*/) -> bool { return false; }
};
template<multi::dimensionality_type D> using FA = multi::array<long, D, AF<long>>;
extern "C" { void mkF1(FA<1>* out, long n0, long v){ new(out) FA<1>(multi::extensions_t<1>{n0}, v, AF<long>{}); }
             void mkF2(FA<2>* out, long n0, long n1, long v){ new(out) FA<2>(multi::extensions_t<2>{n0, n1}, v, AF<long>{}); } }
'''
Group('fancy', ['boost/multi/array.hpp'], profile='O', prelude=PRE,
      cut=[r'_ZSt.*terminate', r'_ZNSt7__cxx11', r'_ZSt9to_string', r'_ZSt20__throw_length_error'], noinline=[r'^fp_', r'^_ZNSt7__cxx11'])

DECL = 'int g_taken; int g_given; int g_derefs; I64 g_size[3]; _Bool g_out[3]; I64 G_fp_pool[3][%d];   /* the storage handed out by the allocator */' % G_CAP
HOOKS = [
    Stub('fp_take', decl=DECL, ghosts=['g_taken', 'g_size', 'g_out', 'G_fp_pool'],
         body='{ __CPROVER_assert(a0 > 0, "allocate: a positive number of elements is requested"); __CPROVER_assert(a0 <= %d && g_taken < 3, "BOUND: request larger than the pool of this check"); __CPROVER_assume(a0 <= %d && g_taken < 3); '
              'int k_ = g_taken++; g_size[k_] = a0; g_out[k_] = 1; return &G_fp_pool[k_][0]; }' % (G_CAP, G_CAP)),
    Stub('fp_give', ghosts=['g_given', 'g_out'],
         body='{ int k_ = (a0 == (void*)&G_fp_pool[0][0]) ? 0 : (a0 == (void*)&G_fp_pool[1][0]) ? 1 : (a0 == (void*)&G_fp_pool[2][0]) ? 2 : -1; __CPROVER_assert(k_ >= 0, "deallocate: the start of a block obtained from the allocator"); __CPROVER_assume(k_ >= 0); '
              '__CPROVER_assert(g_out[k_] && g_size[k_] == a1, "deallocate: an outstanding block with the size it was requested with"); g_out[k_] = 0; g_given++; return; }'),
    Stub('fp_deref', ghosts=['g_derefs'],
         body='{ g_derefs++; __CPROVER_assert(a0 != 0, "fancy pointer: no dereference of a null pointer (the array owns no storage)"); __CPROVER_assert(0 <= a1 && a1 < a2, "fancy pointer: dereference inside the block the pointer was derived from"); '
              'int k_ = (a0 == (void*)&G_fp_pool[0][0]) ? 0 : (a0 == (void*)&G_fp_pool[1][0]) ? 1 : (a0 == (void*)&G_fp_pool[2][0]) ? 2 : -1; __CPROVER_assert(k_ >= 0 && g_out[k_] && a2 == g_size[k_], "fancy pointer: the block is outstanding (no use after release)"); __CPROVER_assume(a0 != 0 && 0 <= a1 && a1 < a2 && k_ >= 0); return; }'),
]
def FAR(D): return r're:boost::multi::array<long,%d,AF<long>>' % D
INIT = 'g_taken = 0; g_given = 0; g_derefs = 0; for(int k_ = 0; k_ < 3; k_++){ g_size[k_] = 0; g_out[k_] = 0; } '
BND = {1: ['g_a0 <= 4'], 2: ['g_a0 <= 2', 'g_a1 <= 3']}
COMMON = dict(group='fancy', mode='exact', objbits=12, timeout=1500, unwind=G_CAP + 3, native=False, stubs=HOOKS, solvers=('minisat', 'cadical'),
              bounded='bounded: pool of 3 blocks of %d cells (D=1: n <= 4; D=2: extents <= 2 x 3); loops fully unwound with unwinding assertions' % G_CAP)
def shape(a, D, ns):
    cs = []
    for k in range(D):
        inner = ' * '.join(ns[k+1:]) or '1'
        cs.append('%s == ((%s) == 0 ? 1 : (%s)) && %s == 0 && %s == (%s) * (%s)' % (lp(a, k, 'stride_'), inner, inner, lp(a, k, 'offset_'), lp(a, k, 'nelems_'), ns[k], inner))
    return ' && '.join(cs)
def blk_of(a): return '(%s->base_.base_ == &G_fp_pool[0][0] ? 0 : %s->base_.base_ == &G_fp_pool[1][0] ? 1 : 2)' % (a, a)
def owns(a, n):   # a owns an outstanding block of exactly n cells, its base pointer is the start of that block (or, empty: owns nothing)
    return '(%s == 0 ? 1 : (%s->base_.idx_ == 0 && %s->base_.n_ == %s && g_out[%s] && g_size[%s] == %s && (%s->base_.base_ == &G_fp_pool[0][0] || %s->base_.base_ == &G_fp_pool[1][0] || %s->base_.base_ == &G_fp_pool[2][0])))' % (n, a, a, n, blk_of(a), blk_of(a), n, a, a, a)
def cells_are(a, n, v, cap=G_CAP): return ' && '.join('IMPLIES(%d < %s, G_fp_pool[%s][%d] == %s)' % (i, n, blk_of(a), i, v) for i in range(cap))

for D in (1, 2):
    ns_a = ['g_a%d' % k for k in range(D)]; xs = ['x%d' % k for k in range(D)]
    Na = ' * '.join(ns_a); Nx = ' * '.join(xs)
    bnd = ' && '.join(['0 <= %s' % n for n in ns_a] + BND[D]); xb = ' && '.join(['0 <= %s' % x for x in xs] + [b.replace('g_a', 'x') for b in BND[D]])
    # ---------------------------------------------------------------- array(extensions, value, alloc)
    Check('F%d_ctor_fill' % D, ['C11'], params=['out'] + ['n%d' % k for k in range(D)] + ['v'], fn='mkF%d' % D, wrapper=None, cxx={'out': FAR(D)}, ghosts=[], setup=INIT,
          requires=[' && '.join(['0 <= n%d' % k for k in range(D)] + [b.replace('g_a', 'n') for b in BND[D]]), 'EXC == 0'],
          ensures=[('requested extents over a block obtained through the fancy-pointer allocator; an empty shape owns nothing', 'EXC == 0 && %s && %s && g_taken == ((%s) > 0 ? 1 : 0) && g_given == 0' % (shape('out', D, ['n%d' % k for k in range(D)]), owns('out', ' * '.join('n%d' % k for k in range(D))), ' * '.join('n%d' % k for k in range(D)))),
                   ('every element equals the fill value (written through the fancy pointer)', cells_are('out', ' * '.join('n%d' % k for k in range(D)), 'v'))],
          covers=[' && '.join('n%d > 1' % k for k in range(D)), 'n0 == 0'] + (['n0 > 0 && n1 == 0'] if D == 2 else []), assigns=['*out'], **COMMON)
    # ---------------------------------------------------------------- reextent(x, v) / reextent(x)
    pre = '__CPROVER_assume(%s); ' % bnd + INIT + 'mkF%d(a, %s, g_v0); __CPROVER_assume(!EXC); ' % (D, ', '.join(ns_a))
    def kept(D_):
        cs = []
        if D_ == 1:
            for i in range(4): cs.append('IMPLIES(%d < g_a0 && %d < x0, G_fp_pool[%s][%d] == g_v0)' % (i, i, blk_of('a'), i))
        else:
            for i in range(2):
                for j in range(3): cs.append('IMPLIES(%d < g_a0 && %d < x0 && %d < g_a1 && %d < x1, G_fp_pool[%s][%d * x1 + %d] == g_v0)' % (i, i, j, j, blk_of('a'), i, j))
        return ' && '.join(cs)
    def others(D_, v):
        cs = []
        if D_ == 1:
            for i in range(4): cs.append('IMPLIES(%d < x0 && !(%d < g_a0), G_fp_pool[%s][%d] == %s)' % (i, i, blk_of('a'), i, v))
        else:
            for i in range(2):
                for j in range(3): cs.append('IMPLIES(%d < x0 && %d < x1 && !(%d < g_a0 && %d < g_a1), G_fp_pool[%s][%d * x1 + %d] == %s)' % (i, j, i, j, blk_of('a'), i, j, v))
        return ' && '.join(cs)
    for fill in (True, False):
        nm = 'F%d_reextent%s' % (D, '_fill' if fill else '')
        Check(nm, ['C11'], params=['a'] + xs + (['v'] if fill else []), fn='w_' + nm,
              wrapper=('void', 'FA<%d>* a, %s%s' % (D, ', '.join('long %s' % x for x in xs), ', long v' if fill else ''), 'a->reextent({%s}%s);' % (', '.join(xs), ', v' if fill else '')),
              cxx={'a': FAR(D)}, ghosts=[(I64, n) for n in ns_a] + [(I64, 'g_v0')], extra_roots=['mkF%d' % D], setup=pre,
              requires=[bnd, xb, 'EXC == 0', shape('a', D, ns_a), owns('a', Na)],
              ensures=[('requested extents; the array owns exactly one outstanding block of that size (none when empty), the old block is released', 'EXC == 0 && %s && %s && g_taken - g_given == ((%s) > 0 ? 1 : 0)' % (shape('a', D, xs), owns('a', Nx), Nx)),
                       ('every element in both the old and the new extents keeps its value', 'IMPLIES((%s) > 0, %s)' % (Nx, kept(D)))] +
                      ([('every other element equals the fill value', 'IMPLIES((%s) > 0, %s)' % (Nx, others(D, 'v')))] if fill else []),
              covers=['x0 > g_a0 && g_a0 > 0', 'x0 < g_a0 && x0 > 0', '(%s) == 0 && (%s) > 0' % (Nx, Na), '(%s) == 0 && (%s) > 0' % (Na, Nx)], assigns=['*a'], **COMMON,
              tier='quick')
    # ---------------------------------------------------------------- copy construction and element access
    Check('F%d_copy_ctor' % D, ['C11'], params=['out', 'a'], fn='w_F%d_copy_ctor' % D,
          wrapper=('void', 'FA<%d>* out, FA<%d> const* a' % (D, D), 'new(out) FA<%d>(*a);' % D),
          cxx={'a': FAR(D), 'out': FAR(D)}, ghosts=[(I64, n) for n in ns_a] + [(I64, 'g_v0')], extra_roots=['mkF%d' % D], setup=pre,
          requires=[bnd, 'EXC == 0', shape('a', D, ns_a), owns('a', Na)],
          ensures=[('an independent array with the extents and elements of the source, in its own block', 'EXC == 0 && %s && %s && %s && %s && ((%s) == 0 || out->base_.base_ != a->base_.base_)' % (shape('out', D, ns_a), owns('out', Na), owns('a', Na), cells_are('out', Na, 'g_v0'), Na)),
                   ('the source is unchanged', cells_are('a', Na, 'g_v0'))],
          covers=['g_a0 > 1', 'g_a0 == 0'], assigns=['*out'], **COMMON)
