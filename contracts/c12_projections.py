"""C12: projection views -- layout_t::scale, member_cast, reinterpret_array_cast<U>() and <U>(n), static/const casts, transform_ptr.

Byte-level refinement contract:  byteaddr(ret, j) == byteaddr(self, j) + member_offset  for every index tuple j, i.e. per dimension
   ret.stride_k * sizeof(U) == self.stride_k * sizeof(T)   (same for nelems_k),  offsets stay 0,  base reinterpreted in place (+ member offset).
sizeof(T), sizeof(U) are run-time arguments of scale(num, den); each check pins them to the constants of one instantiation, so the
obligations are discharged bit-precisely (exact-64)."""
from common import *
import re
E = re.escape

Group('proj', ['boost/multi/array.hpp', 'complex'], prelude='''
using Z = std::complex<double>;
struct P3 { double x; double y; double z; };
template<multi::dimensionality_type D> using L = multi::layout_t<D>;
template<class T, multi::dimensionality_type D> using CSV = multi::const_subarray<T, D, T*>;
struct twice { double operator()(double const& x) const { return 2*x; } };
using TP = multi::transform_ptr<double, twice, double const*, double>;
''')
def Ln(D): return 'boost::multi::layout_t<%dl, long>' % D

def scaled(ret, self, D, num, den, pre_r='', pre_s=''):
    cs = []
    for k in range(D):
        for x in ('stride_', 'nelems_'):
            cs.append('%s * %d == %s * %d' % (lp(ret, k, x, pre_r), den, lp(self, k, x, pre_s), num))
        cs.append('%s == 0' % lp(ret, k, 'offset_', pre_r))
    return ' && '.join(cs)
def scalable(self, D, num, den, pre=''):
    cs = []
    for k in range(D):
        cs += ['INR(%s) && INR(%s) && %s == 0' % (lp(self, k, 'stride_', pre), lp(self, k, 'nelems_', pre), lp(self, k, 'offset_', pre)),
               '(%s * %d) %% %d == 0 && (%s * %d) %% %d == 0' % (lp(self, k, 'stride_', pre), num, den, lp(self, k, 'nelems_', pre), num, den)]
    return ' && '.join(cs)

PAIRS = [(16, 8), (24, 8), (16, 24), (8, 16), (8, 8)]
for D in (1, 2, 3):
    for num, den in PAIRS:
        Check('L%d_scale_%d_%d' % (D, num, den), ['C12', 'C20'], 'proj', fn=Ln(D) + '::scale(long, long) const', params=['ret', 'self', 'num', 'den'],
              wrapper=('void', 'L<%d>* ret, L<%d> const* self, multi::size_t num, multi::size_t den' % (D, D), 'new(ret) L<%d>(self->scale(num, den));' % D),
              cxx={'self': LAY(D), 'ret': LAY(D)}, mode='exact',
              requires=['num == %d && den == %d' % (num, den), scalable('self', D, num, den)],
              ensures=[('strides and spans keep their size in bytes (sizeof(T)=%d -> sizeof(U)=%d), offsets stay 0' % (num, den), scaled('ret', 'self', D, num, den)),
                       ('0-dimensional leaf handed on', '%s == %s' % (lp('ret', D, 'nelems_'), lp('self', D, 'nelems_')))],
              covers=['self->stride_ == %d' % (den // __import__('math').gcd(num, den)), 'self->nelems_ == 0'],
              assigns=['*ret'], tier='quick' if (num, den) in ((16, 8), (16, 24)) or D == 2 else 'thorough')

def REC2(kind, T, D, ptr): return 're:boost::multi::%s<%s,%d,%s(,boost::multi::layout_t<%d>)?>' % (kind, E(T), D, E(ptr), D)
ZS = lambda D: REC2('const_subarray', 'std::complex<double>', D, 'std::complex<double>*')
PS = lambda D: REC2('const_subarray', 'P3', D, 'P3*')
for D in (1, 2, 3):
    # member_cast: designates exactly the named member of each element
    Check('P%d_member_cast' % D, ['C12', 'C20'], 'proj',
          fn_re=r'.*boost::multi::const_subarray<P3, %dl, P3\*, boost::multi::layout_t<%dl, long> >::member_cast<double, .*>\(double P3::\*\) const.*' % (D, D),
          params=['ret', 'self', 'member'],
          wrapper=('void', 'multi::subarray<double, %d, double const*>* ret, CSV<P3, %d> const* self, double P3::* member' % (D, D),
                   'new(ret) multi::subarray<double, %d, double const*>(self->member_cast<double>(member));' % D) if D > 1 else
                  ('void', 'multi::subarray<double, 1, double*>* ret, CSV<P3, 1> const* self, double P3::* member', 'new(ret) multi::subarray<double, 1, double*>(self->member_cast<double>(member));'),
          cxx={'self': PS(D), 'ret': REC2('subarray', 'double', D, 'constdouble*' if D > 1 else 'double*')}, mode='exact',
          requires=['(member == 0 || member == 8 || member == 16) && self->base_ != 0', scalable('self', D, 24, 8)],
          ensures=[('base is the address of the member inside the first element', '(char*)ret->base_ == (char*)self->base_ + member'),
                   ('strides/spans keep their size in bytes (24 -> 8)', scaled('ret', 'self', D, 24, 8))],
          assigns=['*ret'])
    # reinterpret_array_cast<U>(): each element reinterpreted in place (16-byte complex -> 24-byte P3: neither size divides the other)
    for U, usz, tag in (('P3', 24, 'P3'), ('double', 8, 'double')):
        Check('P%d_reinterpret_%s' % (D, tag), ['C12', 'C20'], 'proj',
              fn_re=r'.*boost::multi::const_subarray<std::complex<double>, %dl, std::complex<double>\*, boost::multi::layout_t<%dl, long> >::reinterpret_array_cast<%s, .*>\(\) const &' % (D, D, U),
              params=['ret', 'self'],
              wrapper=('void', 'multi::const_subarray<%s, %d, %s const*>* ret, CSV<Z, %d> const* self' % (U, D, U, D), 'new(ret) multi::const_subarray<%s, %d, %s const*>(self->reinterpret_array_cast<%s>());' % (U, D, U, U)) if D > 1 else
                      ('void', 'multi::const_subarray<%s, 1, %s*>* ret, CSV<Z, 1> const* self' % (U, U), 'new(ret) multi::const_subarray<%s, 1, %s*>(self->reinterpret_array_cast<%s>());' % (U, U, U)),
              cxx={'self': ZS(D), 'ret': ('re:boost::multi::const_subarray<%s,%d(,const%s\\*)?(,boost::multi::layout_t<%d>)?>' % (U, D, U, D)) if D > 1 else REC2('const_subarray', U, 1, U + '*')}, mode='exact',
              requires=['self->base_ != 0', scalable('self', D, 16, usz)],
              ensures=[('same first byte', '(char*)ret->base_ == (char*)self->base_'), ('strides/spans keep their size in bytes (16 -> %d)' % usz, scaled('ret', 'self', D, 16, usz))],
              assigns=['*ret'])
    # reinterpret_array_cast<double>(2): trailing dimension of size 2 over each element's bytes
    Check('P%d_reinterpret_n' % D, ['C12', 'C20'], 'proj',
          fn_re=r'.*boost::multi::const_subarray<std::complex<double>, %dl, std::complex<double>\*, boost::multi::layout_t<%dl, long> >::reinterpret_array_cast<double, .*>\(long\) const &' % (D, D),
          params=['ret', 'self', 'n'],
          wrapper=('void', 'multi::const_subarray<double, %d, double*>* ret, CSV<Z, %d> const* self, multi::size_t n' % (D+1, D), 'new(ret) multi::const_subarray<double, %d, double*>(self->reinterpret_array_cast<double>(n));' % (D+1)) if D > 1 else
                  ('void', 'multi::subarray<double, 2, double const*>* ret, CSV<Z, 1> const* self, multi::size_t n', 'new(ret) multi::subarray<double, 2, double const*>(self->reinterpret_array_cast<double>(n));'),
          cxx={'self': ZS(D), 'ret': REC2('const_subarray', 'double', D+1, 'double*') if D > 1 else REC2('subarray', 'double', 2, 'constdouble*')}, mode='exact',
          requires=['n == 2 && self->base_ != 0', scalable('self', D, 16, 8)],
          ensures=[('same first byte', '(char*)ret->base_ == (char*)self->base_'),
                   ('the source dimensions keep their size in bytes', scaled('ret', 'self', D, 16, 8)),
                   ('added trailing dimension: n contiguous parts of each element', '%s == 1 && %s == 0 && %s == n' % (lp('ret', D, 'stride_'), lp('ret', D, 'offset_'), lp('ret', D, 'nelems_')))],
          assigns=['*ret'])

# transform_ptr<double, twice, double const*, double>: pointer arithmetic acts on the underlying pointer; dereference applies f to exactly *(p)
TPn = 'boost::multi::transform_ptr<double, twice, double const*, double>'
TPr = 'boost::multi::transform_ptr<double,twice,constdouble*,double>'
for nm, op, body, ens in (('addassign', r'operator\+=\(long\)', '*self += n;', 'self->p_ == OLD(self->p_) + n'),
                          ('subassign', r'operator-=\(long\)', '*self -= n;', 'self->p_ == OLD(self->p_) - n')):
    Check('T_%s' % nm, ['C12'], 'proj', fn_re=E(TPn) + '::' + op, params=['self', 'n'], wrapper=('void', 'TP* self, multi::index n', body),
          cxx={'self': TPr}, mode='exact', requires=['INR(n)'], ensures=[('moves the underlying pointer by n elements', ens), ('returns *this', 'RET == self')], assigns=['*self'])
Check('T_distance', ['C12'], 'proj', fn_re=E(TPn) + r'::operator-\(' + E(TPn) + r' const&\) const', params=['a', 'b'],
      wrapper=('multi::index', 'TP const* a, TP const* b', 'return *a - *b;'), cxx={'a': TPr, 'b': TPr}, mode='exact',
      ghosts=[('double*', 'g_b0'), (I64, 'g_pa'), (I64, 'g_pb')],
      requires=['PTR_SANE(g_b0) && INR(g_pa) && INR(g_pb) && a->p_ == g_b0 + g_pa && b->p_ == g_b0 + g_pb'],
      ensures=[('difference of the underlying positions', 'RET == g_pa - g_pb')], assigns=[])
Check('T_equal', ['C12'], 'proj', fn_re=E(TPn) + r'::operator==\(' + E(TPn) + r' const&\) const', params=['a', 'b'],
      wrapper=('bool', 'TP const* a, TP const* b', 'return *a == *b;'), cxx={'a': TPr, 'b': TPr}, mode='exact',
      requires=['1'], ensures=[('equal iff same underlying element', 'RET == (a->p_ == b->p_)')], assigns=[])

# static_array_cast<T const>() and as_const(): keep extents and element identity (same layout field for field, same first element)
for D in (1, 2, 3):
    alldims = ' && '.join(same_dim('ret', k, 'self', k) for k in range(D)) + ' && %s == %s' % (lp('ret', D, 'nelems_'), lp('self', D, 'nelems_'))
    Check('P%d_static_cast' % D, ['C12'], 'proj', fn='w_P%d_static_cast' % D, params=['ret', 'self'],
          wrapper=('void', 'multi::subarray<double const, %d, double const*>* ret, CSV<double, %d> const* self' % (D, D),
                   'new(ret) multi::subarray<double const, %d, double const*>(self->static_array_cast<double const, double const*>());' % D),
          cxx={'self': REC2('const_subarray', 'double', D, 'double*'), 'ret': 're:boost::multi::subarray<constdouble,%d,constdouble\\*(,boost::multi::layout_t<%d>)?>' % (D, D)}, mode='exact',
          requires=['1'], ensures=[('same first element', '(void*)ret->base_ == (void*)self->base_'), ('same layout in every dimension', alldims)], assigns=['*ret'])
    if D > 1: Check('P%d_as_const' % D, ['C12'], 'proj',   # the D = 1 specialisation has no as_const() at the pinned commit
 fn='w_P%d_as_const' % D, params=['ret', 'self'],
          wrapper=('void', 'multi::const_subarray<double, %d, double const*>* ret, CSV<double, %d> const* self' % (D, D),
                   'new(ret) multi::const_subarray<double, %d, double const*>(self->as_const());' % D),
          cxx={'self': REC2('const_subarray', 'double', D, 'double*'), 'ret': CSUB(D)}, mode='exact',
          requires=['1'], ensures=[('same first element', '(void*)ret->base_ == (void*)self->base_'), ('same layout in every dimension', alldims)], assigns=['*ret'])
