"""C13: BLAS adaptor -- argument marshalling of gemm_n (all dispatch branches) against the reference-BLAS calling convention.

The Fortran routine dgemm_ is an ASSUMED contract (reference BLAS: C := alpha*op(A)*op(B) + beta*C, column-major, leading dimensions):
it is replaced by a stub that records its 13 arguments.  Proved for ALL operand layouts the routine accepts (each operand row- or
column-major with any padding, sizes >= 0) and ghost cell (i, j) / term l:
  * exactly one BLAS call (for a non-empty result), alpha/beta passed through;
  * XERBLA argument validity: M,N,K >= 0, lda >= max(1, rows(op A)), ldb, ldc likewise (otherwise BLAS rejects or reads out of bounds);
  * designation: under the recorded flags and leading dimensions, the Fortran cell C(p,q) that BLAS updates with sum_l opA(p,l)*opB(l,q)
    is the element c[i][j] of the output view and its two factors are a[i][l] and b[l][j] -- either directly (C = A*B) or through the
    transposition identity C^T = B^T * A^T -- and it is the same orientation for all cells (two independent ghost triples).
Profile O: the closure of the entry point is the -O1 clang compilation (inlined), as the design allows for marshalling obligations."""
from common import *
from vf import Stub

Group('blas', ['boost/multi/array.hpp', 'boost/multi/adaptors/blas/gemm.hpp'], profile='O', prelude='''
using CIT2 = multi::array_iterator<double, 2, double*, true>;
using IT2  = multi::array_iterator<double, 2, double*, false>;
''', libs=['-lopenblas'], noinline=[r'4blas4core4gemmIdPd', r'^_ZNSt7__cxx11', r'^_ZNKSt7__cxx11', r'^_ZSt9to_string', r'^_ZNSt7__cxx119to_string', r'^_ZNSt11logic_error', r'^_ZStplI', r'^_ZNSt15__new_allocator', r'^_ZNSaI', r'^_ZN9__gnu_cxx'],
   cut=[r'_ZNSt7__cxx11', r'_ZSt9to_string', r'_ZNSt11logic_error', r'__cxa_allocate_exception', r'_ZNSt.*basic_string', r'_ZNSs', r'_ZdlPv', r'_ZSt.*terminate'])

ITc = 'boost::multi::array_iterator<double,2,double*,true,false,long>'
ITm = 'boost::multi::array_iterator<double,2,double*,false,false,long>'
DG = [('g_ta', 0, None, 'deref'), ('g_tb', 1, None, 'deref'), ('g_M', 2, None, 'deref'), ('g_N', 3, None, 'deref'), ('g_K', 4, None, 'deref'),
      ('g_alpha', 5, None, 'deref'), ('g_X', 6, None, 'ptr'), ('g_ldx', 7, None, 'deref'), ('g_Y', 8, None, 'ptr'), ('g_ldy', 9, None, 'deref'),
      ('g_beta', 10, None, 'deref'), ('g_Z', 11, None, 'ptr'), ('g_ldz', 12, None, 'deref')]
# core::gemm<double,...>(char, char, m, n, k, alpha*, aa, lda, bb, ldb, beta*, cc, ldc): the C++ shim around dgemm_ (under its own contract G_core_gemm)
CG = [('g_ta', 0, None), ('g_tb', 1, None), ('g_M', 2, None), ('g_N', 3, None), ('g_K', 4, None), ('g_alpha', 5, None, 'deref'), ('g_X', 6, None, 'ptr'), ('g_ldx', 7, None),
      ('g_Y', 8, None, 'ptr'), ('g_ldy', 9, None), ('g_beta', 10, None, 'deref'), ('g_Z', 11, None, 'ptr'), ('g_ldz', 12, None)]
CORE_GEMM = r'void boost::multi::blas::core::gemm<double, double\*, double, double\*, double, double, double\*, double, 0>\(char, char, long, long, long, double const\*, double\*, long, double\*, long, double const\*, double\*, long\)'

def it_view(v, rows, cols):
    """iterator v over the rows of a rows x cols matrix view with strides (v->stride_, v->ptr_.layout_.stride_), one of them 1"""
    s0 = v + '->stride_'; s1 = v + '->ptr_.layout_.stride_'
    return ' && '.join([
        '%s->ptr_.base_ != 0 && %s->ptr_.layout_.offset_ == 0 && %s->ptr_.layout_.sub_.offset_ == 0 && %s->ptr_.layout_.sub_.nelems_ == 1' % (v, v, v, v),
        '0 < %s && %s < SMALL && 0 < %s && %s < SMALL' % (s0, s0, s1, s1),
        '%s->ptr_.layout_.nelems_ == MUL(%s, %s)' % (v, cols, s1),
        '((%s == 1 && %s >= MAX1(%s)) || (%s == 1 && %s >= MAX1(%s)))' % (s1, s0, cols, s0, s1, rows)])
def lem(v, cols):
    s1 = v + '->ptr_.layout_.stride_'
    return ['LEMMA_MULDIV(%s, %s)' % (cols, s1), 'LEMMA_MULZERO(%s, %s)' % (cols, s1), 'LEMMA_MULREM(%s, %s)' % (cols, s1), 'LEMMA_MUL1(%s)' % cols]
ORI = {'a': 'r', 'b': 'r', 'c': 'r'}      # set per generated case: 'r' inner stride is 1, 'c' outer stride is 1
def EL(v, r, c_):
    if ORI[v] == 'r': return '(%s->ptr_.base_ + MUL(%s, %s->stride_) + (%s))' % (v, r, v, c_)
    return '(%s->ptr_.base_ + (%s) + MUL(%s, %s->ptr_.layout_.stride_))' % (v, r, c_, v)
def A_(i, l): return EL('a', i, l)
def B_(l, j): return EL('b', l, j)
def C_(i, j): return EL('c', i, j)
# Fortran addressing of the recorded operands
OPX = lambda p, r: "((g_ta == 'N') ? g_X + (%s) + MUL(%s, g_ldx) : g_X + (%s) + MUL(%s, g_ldx))" % (p, r, r, p)
OPY = lambda r, q: "((g_tb == 'N') ? g_Y + (%s) + MUL(%s, g_ldy) : g_Y + (%s) + MUL(%s, g_ldy))" % (r, q, q, r)
ZAD = lambda p, q: "(g_Z + (%s) + MUL(%s, g_ldz))" % (p, q)
def okR(i, j, l):   # BLAS computes C^T = B^T A^T:  M = n, N = m, cell (j, i)
    return ("(g_M == g_n && g_N == g_m && g_K == g_k && %s == %s && ((%s == %s && %s == %s) || (%s == %s && %s == %s)))"
            % (ZAD(j, i), C_(i, j), OPX(j, l), B_(l, j), OPY(l, i), A_(i, l), OPX(j, l), A_(i, l), OPY(l, i), B_(l, j)))
def okD(i, j, l):   # BLAS computes C = A B directly:  M = m, N = n, cell (i, j)
    return ("(g_M == g_m && g_N == g_n && g_K == g_k && %s == %s && ((%s == %s && %s == %s) || (%s == %s && %s == %s)))"
            % (ZAD(i, j), C_(i, j), OPX(i, l), A_(i, l), OPY(l, j), B_(l, j), OPX(i, l), B_(l, j), OPY(l, j), A_(i, l)))
idx_ok = lambda s: '0 <= g_i%s && g_i%s < g_m && 0 <= g_j%s && g_j%s < g_n && 0 <= g_l%s && g_l%s < g_k' % ((s,)*6)

VALID = "((g_ta == 'N' || g_ta == 'T') && (g_tb == 'N' || g_tb == 'T') && g_M >= 0 && g_N >= 0 && g_K >= 0 && g_ldx >= MAX1(g_ta == 'N' ? g_M : g_K) && g_ldy >= MAX1(g_tb == 'N' ? g_K : g_N) && g_ldz >= MAX1(g_M))"
mul1 = []
for g in ('g_i', 'g_j', 'g_l'): mul1 += ['LEMMA_MUL1(%s)' % g]
mul0 = ['LEMMA_MUL0(%s)' % x for x in ('a->stride_', 'a->ptr_.layout_.stride_', 'b->stride_', 'b->ptr_.layout_.stride_', 'c->stride_', 'c->ptr_.layout_.stride_', 'g_m', 'g_n', 'g_k')]
def orient(v, o):   # 'r': rows contiguous (inner stride 1);  'c': columns contiguous (outer stride 1, inner stride != 1)
    return ('%s->ptr_.layout_.stride_ == 1' % v) if o == 'r' else ('%s->stride_ == 1 && %s->ptr_.layout_.stride_ != 1' % (v, v))
for oa in 'rc':
  for ob in 'rc':
    for oc in 'rc':
     for sz, szreq in (('gen', 'g_m > 1 && g_n > 1 && g_k > 1'), ('m1', 'g_m <= 1'), ('n1', 'g_n <= 1 && g_m > 1'), ('k1', 'g_k <= 1 && g_m > 1 && g_n > 1')):
      tag = oa + ob + oc; ORI.update(a=oa, b=ob, c=oc)
      Check('G_gemm_nn_' + tag + '_' + sz, ['C13'], 'blas', fn='w_G_gemm_nn_rrr_gen', params=['alpha', 'a', 'm', 'b', 'beta', 'c'],
      wrapper=('void', 'double alpha, CIT2 const* a, multi::size_t m, CIT2 const* b, double beta, IT2 const* c', 'multi::blas::gemm_n(alpha, *a, m, *b, beta, *c);') if (tag, sz) == ('rrr', 'gen') else None,
      cxx={'a': ITc, 'b': ITc, 'c': ITm},
      ghosts=[(I64, 'g_m'), (I64, 'g_n'), (I64, 'g_k')] + [(I64, x) for x in ('g_i', 'g_j', 'g_l')],
      stubs=[Stub(CORE_GEMM, record=CG, count='g_calls')],
      requires=['m == g_m && 0 <= g_m && g_m < SMALL && 0 <= g_n && g_n < SMALL && 0 <= g_k && g_k < SMALL', szreq + '   /* size class %s */' % sz,
                it_view('a', 'g_m', 'g_k'), it_view('b', 'g_k', 'g_n'), it_view('c', 'g_m', 'g_n'), 'alpha == alpha && beta == beta',
                orient('a', oa) + ' && ' + orient('b', ob) + ' && ' + orient('c', oc) + '   /* operand orientations of this case: A %s, B %s, C %s */' % (oa, ob, oc),
                'a->ptr_.base_ != c->ptr_.base_ && b->ptr_.base_ != c->ptr_.base_', 'INR(g_i) && INR(g_j) && INR(g_l)'],
      lemmas=lem('a', 'g_k') + lem('b', 'g_n') + lem('c', 'g_n') + mul1 + mul0,
      ensures=[('exactly one BLAS call for a non-empty product, none for m == 0', 'EXC != 0 || g_calls == (g_m > 0 ? 1 : 0)'),
               ('alpha and beta are passed through', 'IMPLIES(g_calls == 1, g_alpha == alpha && g_beta == beta)'),
               ('whenever the arguments pass BLAS validity (XERBLA: lda >= max(1, rows(op A)) ...; otherwise the shim rejects the call), the operands designate c[i][j] += a[i][l]*b[l][j] (directly, or as C^T = B^T A^T) at every cell (i,j) and term l',
                'IMPLIES(g_calls == 1 && %s && %s, %s || %s)' % (VALID, idx_ok(''), okR('g_i', 'g_j', 'g_l'), okD('g_i', 'g_j', 'g_l')))],
      covers={'gen': ['g_calls == 1 && g_m > 2 && g_n > 3 && g_k > 4'], 'm1': ['g_calls == 1 && g_m == 1 && g_n > 1 && g_k > 1', 'g_m == 0'], 'n1': ['g_calls == 1 && g_n == 1 && g_k > 1'], 'k1': ['g_calls == 1 && g_k == 1']}[sz],
      assigns=[], mode='uf', objbits=12, timeout=900, cbmc_flags=['--no-pointer-check'], unwind=3, solvers=('minisat',), reject_ok=True)

# ---------------------------------------------------------------------------------------------------------------------
# gemv_n:  y = alpha * op(M) * x + beta * y ;  xGEMV is an assumed contract (recording stub)
Group('blasv', ['boost/multi/array.hpp', 'boost/multi/adaptors/blas/gemv.hpp', 'complex'], profile='O', libs=['-lopenblas'], prelude='''
using Z = std::complex<double>;
using DMit = multi::array_iterator<double, 2, double*, true>;
using DXit = multi::array_iterator<double, 1, double*, true>;
using DYit = multi::array_iterator<double, 1, double*, false>;
using ZA = multi::array<Z, 2>;
using ZJit = decltype(multi::blas::J(std::declval<ZA const&>()).begin());
using ZXit = multi::array_iterator<Z, 1, Z*, true>;
using ZYit = multi::array_iterator<Z, 1, Z*, false>;
''', noinline=[r'^_ZNSt7__cxx11', r'^_ZSt9to_string', r'^_ZNSt11logic_error', r'^_ZStplI'], cut=[r'_ZNSt7__cxx11', r'_ZSt9to_string', r'_ZNSt11logic_error', r'_ZSt.*terminate'])
GV = [('g_t', 0, None, 'deref'), ('g_M', 1, None, 'deref'), ('g_N', 2, None, 'deref'), ('g_alpha', 3, None, 'deref'), ('g_A', 4, None, 'ptr'), ('g_lda', 5, None, 'deref'),
      ('g_X', 6, None, 'ptr'), ('g_incx', 7, None, 'deref'), ('g_beta', 8, None, 'deref'), ('g_Y', 9, None, 'ptr'), ('g_incy', 10, None, 'deref')]
def vec(v, n):
    return '%s->ptr_ != 0 && 0 < %s->stride_ && %s->stride_ < SMALL' % (v, v, v)
for T, pre, blasfn, mrec, xrec, yrec, mit, xit, yit, scal, conj in (
        ('double', 'd', 'dgemv_', 'boost::multi::array_iterator<double,2,double*,true,false,long>', 'boost::multi::array_iterator<double,1,double*,true,false,long>',
         'boost::multi::array_iterator<double,1,double*,false,false,long>', 'DMit', 'DXit', 'DYit', 'double', False),
        ('Z', 'z', 'zgemv_', r're:boost::multi::array_iterator<std::complex<double>,2,boost::multi::blas::involuter<.*', r're:boost::multi::array_iterator<std::complex<double>,1,std::complex<double>\*,true(,false,long)?>',
         r're:boost::multi::array_iterator<std::complex<double>,1,std::complex<double>\*(,false,false,long)?>', 'ZJit', 'ZXit', 'ZYit', 'Z', True)):
    base = 'm->ptr_.base_.it_' if conj else 'm->ptr_.base_'
    for om in ('r',) if conj else ('r', 'c'):
        M_ = (lambda i, j: '(%s + MUL(%s, m->stride_) + (%s))' % (base, i, j)) if om == 'r' else (lambda i, j: '(%s + (%s) + MUL(%s, m->ptr_.layout_.stride_))' % (base, i, j))
        orient_m = 'm->ptr_.layout_.stride_ == 1' if om == 'r' else 'm->stride_ == 1 && m->ptr_.layout_.stride_ != 1'
        AF = lambda p, q: '(g_A + (%s) + MUL(%s, g_lda))' % (p, q)
        okN = "(g_t == 'N' && g_M == g_m && g_N == g_n && %s == %s)" % (AF('g_i', 'g_j'), M_('g_i', 'g_j'))
        okT = "((g_t == 'T' || g_t == 'C') && g_M == g_n && g_N == g_m && %s == %s)" % (AF('g_j', 'g_i'), M_('g_i', 'g_j'))
        Check('G_gemv_%s_%s' % (pre, om), ['C13'], 'blasv', fn='w_G_gemv_%s_%s' % (pre, om), params=['a', 'm', 'count', 'x', 'b', 'y'],
              wrapper=('void', '%s const* a, %s const* m, multi::size_t count, %s const* x, %s const* b, %s const* y' % (scal, mit, xit, scal, yit), 'multi::blas::gemv_n(*a, *m, count, *x, *b, *y);'),
              cxx={'m': mrec, 'x': xrec, 'y': yrec},
              ghosts=[(I64, 'g_m'), (I64, 'g_n'), (I64, 'g_i'), (I64, 'g_j')],
              stubs=[Stub(blasfn, record=GV, count='g_calls')],
              requires=['count == g_m && 0 < g_m && g_m < SMALL && 0 < g_n && g_n < SMALL', base + ' != 0',
                        'm->ptr_.layout_.offset_ == 0 && m->ptr_.layout_.sub_.offset_ == 0 && m->ptr_.layout_.sub_.nelems_ == 1 && 0 < m->stride_ && m->stride_ < SMALL && 0 < m->ptr_.layout_.stride_ && m->ptr_.layout_.stride_ < SMALL',
                        'm->ptr_.layout_.nelems_ == MUL(g_n, m->ptr_.layout_.stride_)', orient_m,
                        '(m->ptr_.layout_.stride_ == 1 && m->stride_ >= MAX1(g_n)) || (m->stride_ == 1 && m->ptr_.layout_.stride_ >= MAX1(g_m))',
                        vec('x', 'g_n'), vec('y', 'g_m'), '(void*)x->ptr_ != (void*)y->ptr_', 'INR(g_i) && INR(g_j)'],
              lemmas=['LEMMA_MULDIV(g_n, m->ptr_.layout_.stride_)', 'LEMMA_MULZERO(g_n, m->ptr_.layout_.stride_)', 'LEMMA_MULREM(g_n, m->ptr_.layout_.stride_)', 'LEMMA_MUL1(g_n)',
                      'LEMMA_MUL1(g_i)', 'LEMMA_MUL1(g_j)', 'LEMMA_MUL0(m->stride_)', 'LEMMA_MUL0(m->ptr_.layout_.stride_)'],
              ensures=[('exactly one BLAS call', 'EXC != 0 || g_calls == 1'),
                       ('vectors are passed with their own strides', 'IMPLIES(g_calls == 1, (void*)g_X == (void*)x->ptr_ && g_incx == x->stride_ && (void*)g_Y == (void*)y->ptr_ && g_incy == y->stride_)'),
                       ('conjugation flag' if conj else 'no conjugation for real/plain matrices', "IMPLIES(g_calls == 1, %s)" % ("g_t == 'C'" if conj else "g_t == 'N' || g_t == 'T'")),
                       ('whenever the leading dimension is BLAS-valid (lda >= max(1, M)), y[i] += op(M)[i][j] * x[j] is designated at every (i,j): the Fortran matrix cell is m[i][j] and the dimensions are in the right order',
                        'IMPLIES(g_calls == 1 && g_lda >= MAX1(g_M) && 0 <= g_i && g_i < g_m && 0 <= g_j && g_j < g_n, %s || %s)' % (okN, okT))],
              covers=['g_calls == 1 && g_m > 2 && g_n > 3 && g_m != g_n', 'g_calls == 1 && g_m == 1'],
              assigns=[], mode='uf', objbits=12, timeout=900, cbmc_flags=['--no-pointer-check'], unwind=3, solvers=('minisat',), reject_ok=True)

# ---------------------------------------------------------------------------------------------------------------------
# gemm with a conjugated OUTPUT view (blas::J(c), complex):  J(c) = alpha*J(a)*J(b) + beta*J(c)  is computed as
# c = conj(alpha)*a*b + conj(beta)*c on the underlying plain views.  zgemm (the shim core::gemm<complex>) is the recording stub.
Group('blasz', ['boost/multi/array.hpp', 'boost/multi/adaptors/blas/gemm.hpp', 'boost/multi/adaptors/blas/operations.hpp', 'complex'], profile='O', libs=['-lopenblas'], prelude='''
using Z = std::complex<double>;
using ZA = multi::array<Z, 2>;
using JCA = decltype(multi::blas::J(std::declval<ZA const&>()));
using JMA = decltype(multi::blas::J(std::declval<ZA&>()));
''', noinline=[r'4blas4core4gemmISt7complex', r'^_ZNSt7__cxx11', r'^_ZNKSt7__cxx11', r'^_ZSt9to_string', r'^_ZNSt7__cxx119to_string', r'^_ZNSt11logic_error', r'^_ZStplI', r'^_ZNSt15__new_allocator', r'^_ZNSaI', r'^_ZN9__gnu_cxx'],
   cut=[r'_ZNSt7__cxx11', r'_ZSt9to_string', r'_ZNSt11logic_error', r'__cxa_allocate_exception', r'_ZNSt.*basic_string', r'_ZNSs', r'_ZdlPv', r'_ZSt.*terminate'])
CGZ = [('g_ta', 0, None), ('g_tb', 1, None), ('g_M', 2, None), ('g_N', 3, None), ('g_K', 4, None), ('g_alpha', 5, None, 'deref'), ('g_X', 6, None, 'ptr'), ('g_ldx', 7, None),
       ('g_Y', 8, None, 'ptr'), ('g_ldy', 9, None), ('g_beta', 10, None, 'deref'), ('g_Z', 11, None, 'ptr'), ('g_ldz', 12, None)]
CORE_GEMM_Z = r'void boost::multi::blas::core::gemm<std::complex<double>.*\(char, char, long, long, long, std::complex<double> const\*, .*'
JRECC = r're:boost::multi::const_subarray<std::complex<double>,2,boost::multi::blas::involuter<conststd::complex<double>\*.*'
JRECM = r're:boost::multi::subarray<std::complex<double>,2,boost::multi::blas::involuter<std::complex<double>\*.*'
def jview(v, rows, cols, ori='r'):
    return ' && '.join(['%s->base_.it_ != 0 && %s->offset_ == 0 && %s->sub_.offset_ == 0 && %s->sub_.sub_.nelems_ == 1' % (v, v, v, v),
                        ('%s->sub_.stride_ == 1 && %s->stride_ >= MAX1(%s) && %s->stride_ < SMALL' % (v, v, cols, v)) if ori == 'r' else
                        ('%s->stride_ == 1 && %s->sub_.stride_ >= MAX1(%s) && %s->sub_.stride_ < SMALL && %s->sub_.stride_ != 1' % (v, v, rows, v, v)),
                        '%s->nelems_ == MUL(%s, %s->stride_) && %s->sub_.nelems_ == MUL(%s, %s->sub_.stride_)' % (v, rows, v, v, cols, v)])
for zo in ('r', 'c'):
  ztag = zo*3
  Check('G_gemm_zj_' + ztag, ['C13'], 'blasz', fn='w_G_gemm_zj_rrr', params=['alpha', 'a', 'b', 'beta', 'c'],
      wrapper=('void', 'Z const* alpha, JCA const* a, JCA const* b, Z const* beta, JMA* c', 'multi::blas::gemm(*alpha, *a, *b, *beta, *c);') if zo == 'r' else None,
      cxx={'a': JRECC, 'b': JRECC, 'c': JRECM},
      ghosts=[(I64, 'g_m'), (I64, 'g_n'), (I64, 'g_k')],
      stubs=[Stub(CORE_GEMM_Z, record=CGZ, count='g_calls')],
      requires=['1 < g_m && g_m < SMALL && 1 < g_n && g_n < SMALL && 1 < g_k && g_k < SMALL', jview('a', 'g_m', 'g_k', zo), jview('b', 'g_k', 'g_n', zo), jview('c', 'g_m', 'g_n', zo),
                'a->base_.it_ != c->base_.it_ && b->base_.it_ != c->base_.it_', 'alpha->f0.f0 == alpha->f0.f0 && alpha->f0.f1 == alpha->f0.f1 && beta->f0.f0 == beta->f0.f0 && beta->f0.f1 == beta->f0.f1   /* no NaN: equality of the passed scalars is meaningful */'],
      lemmas=['LEMMA_MULDIV(g_k, a->sub_.stride_)', 'LEMMA_MULDIV(g_n, b->sub_.stride_)', 'LEMMA_MULDIV(g_n, c->sub_.stride_)', 'LEMMA_MULDIV(g_m, a->stride_)', 'LEMMA_MULDIV(g_k, b->stride_)', 'LEMMA_MULDIV(g_m, c->stride_)', 'LEMMA_MULZERO(g_m, a->stride_)', 'LEMMA_MULZERO(g_k, b->stride_)', 'LEMMA_MULZERO(g_m, c->stride_)',
              'LEMMA_MULREM(g_m, a->stride_)', 'LEMMA_MULREM(g_k, b->stride_)', 'LEMMA_MULREM(g_m, c->stride_)', 'LEMMA_MUL1(g_m)', 'LEMMA_MUL1(g_n)', 'LEMMA_MUL1(g_k)',
              'LEMMA_MUL0(a->stride_)', 'LEMMA_MUL0(b->stride_)', 'LEMMA_MUL0(c->stride_)', 'LEMMA_MUL0(a->sub_.stride_)', 'LEMMA_MUL0(b->sub_.stride_)', 'LEMMA_MUL0(c->sub_.stride_)',
              'LEMMA_MULZERO(g_k, a->sub_.stride_)', 'LEMMA_MULZERO(g_n, b->sub_.stride_)', 'LEMMA_MULZERO(g_n, c->sub_.stride_)', 'LEMMA_MULREM(g_k, a->sub_.stride_)', 'LEMMA_MULREM(g_n, b->sub_.stride_)', 'LEMMA_MULREM(g_n, c->sub_.stride_)'],
      ensures=[('exactly one BLAS call', 'EXC != 0 || g_calls == 1'),
               ('the output is the underlying storage of the conjugated view', 'IMPLIES(g_calls == 1, (void*)g_Z == (void*)c->base_.it_)'),
               ('conjugated output: alpha and beta are passed conjugated (conj(C) = alpha conj(A) conj(B) + beta conj(C)  iff  C = conj(alpha) A B + conj(beta) C)',
                'IMPLIES(g_calls == 1, g_alpha.f0.f0 == alpha->f0.f0 && g_alpha.f0.f1 == -alpha->f0.f1 && g_beta.f0.f0 == beta->f0.f0 && g_beta.f0.f1 == -beta->f0.f1)')],
      covers=['g_calls == 1 && g_m > 2 && g_n > 3'],
      assigns=[], mode='uf', objbits=12, timeout=900, cbmc_flags=['--no-pointer-check'], unwind=3, solvers=('minisat', 'cadical'), reject_ok=True)
