"""C02 (+C03 library side, C19 variants): flat element iterators  elements_iterator_t<double*, layout_t<D>>  and  elements_range_t.

Representation invariant SYNC (DESIGN 4.2), zero-based, non-empty shape (n_k > 0):
   xs_ = ([0,n_0), ..., [0,n_{D-1}))  are the extensions of l_,   l_ is WF with those sizes,
   ns_ = (i_0..i_{D-1}),  0 <= i_k < n_k  (i_0 == n_0 only for the past-the-end position, then the inner indices are 0),
   n_  = sum_k i_k * prod_{j>k} n_j            (canonical order, last index fastest).
Every member must preserve SYNC and have the abstract effect on n_;  *it designates  base_ + sum_k i_k*stride_k  = Addr(view, ns_).
"""
from common import *
import re
E = re.escape

Group('elements', ['boost/multi/array.hpp'], prelude='''
template<multi::dimensionality_type D> using EI = multi::elements_iterator_t<double*, multi::layout_t<D>>;
template<multi::dimensionality_type D> using ER = multi::elements_range_t<double*, multi::layout_t<D>>;
''')

def EIrec(D): return 'boost::multi::elements_iterator_t<double*,boost::multi::layout_t<%d>>' % D
def EIn(D): return 'boost::multi::elements_iterator_t<double*, boost::multi::layout_t<%dl, long> >' % D
def ERrec(D): return 'boost::multi::elements_range_t<double*,boost::multi::layout_t<%d>>' % D
def ERn(D): return 'boost::multi::elements_range_t<double*, boost::multi::layout_t<%dl, long> >' % D

def idx(v, k): return '%s->ns_.head_#%d' % (v, k)
def lin(v, D):
    """sum_k i_k * prod_{j>k} n_j in the nesting the library uses: i0*(n1*(n2..)) + (i1*(..) + ...)"""
    def prod(k):
        if k == D-1: return 'g_n%d' % k
        return 'MUL(g_n%d, %s)' % (k, prod(k+1))
    terms = []
    for k in range(D):
        terms.append(('MUL(%s, %s)' % (idx(v, k), prod(k+1))) if k < D-1 else idx(v, k))
    e = terms[-1]
    for t in reversed(terms[:-1]): e = '%s + (%s)' % (t, e) if False else '(%s + %s)' % (t, e)
    return e
def total(D):
    e = 'g_n%d' % (D-1)
    for k in range(D-2, -1, -1): e = 'MUL(g_n%d, %s)' % (k, e)
    return e
def SYNC(v, D, based=False, aslist=False):
    cs = [WF(v, D, pre='l_.', zero_based=not based), '%s == 0 && %s == 1' % (lp(v, D, 'offset_', 'l_.'), lp(v, D, 'nelems_', 'l_.')), v + '->base_ != 0']
    for k in range(D):
        cs.append('%s->xs_.head_#%d.first_ == g_f%d && %s->xs_.head_#%d.last_ == g_f%d + g_n%d && g_n%d > 0' % (v, k, k, v, k, k, k, k))
        cs.append('0 <= %s && %s %s g_n%d' % (idx(v, k), idx(v, k), '<=' if k == 0 else '<', k))
        if k > 0: cs.append('(%s < g_n0 || %s == 0)' % (idx(v, 0), idx(v, k)))
    cs.append('%s->n_ == %s' % (v, lin(v, D)))
    if D > 1: cs.append('INOFF(%s)' % total(D))      # the number of elements fits the address space
    return cs if aslist else ' && '.join(cs)
def addr(v, D):
    return '%s->base_ + (%s)' % (v, ' + '.join('MUL(%s, %s)' % (idx(v, k), lp(v, k, 'stride_', 'l_.')) for k in range(D)))
def fields_same(a, b, D, what=('base_', 'n_', 'l_', 'xs_', 'ns_')):
    cs = []
    if 'base_' in what: cs.append('%s->base_ == %s->base_' % (a, b))
    if 'n_' in what: cs.append('%s->n_ == %s->n_' % (a, b))
    if 'l_' in what:
        for k in range(D): cs += ['%s == %s' % (lp(a, k, x, 'l_.'), lp(b, k, x, 'l_.')) for x in ('stride_', 'offset_', 'nelems_')]
        cs += ['%s == %s' % (lp(a, D, x, 'l_.'), lp(b, D, x, 'l_.')) for x in ('offset_', 'nelems_')]
    if 'xs_' in what:
        for k in range(D): cs += ['%s->xs_.head_#%d.%s == %s->xs_.head_#%d.%s' % (a, k, x, b, k, x) for x in ('first_', 'last_')]
    if 'ns_' in what:
        for k in range(D): cs.append('%s == %s' % (idx(a, k), idx(b, k)))
    return ' && '.join(cs)
def kept(v, D, what):
    return fields_same(v, 'OLDPTR', D, what)

def sync_lemmas(v, D):
    out = []
    for k in range(D):
        out += ['LEMMA_MUL0(%s)' % lp(v, k, 'stride_', 'l_.'), 'LEMMA_MULDIV(g_n%d, %s)' % (k, lp(v, k, 'stride_', 'l_.')),
                'LEMMA_MULREM(g_n%d, %s)' % (k, lp(v, k, 'stride_', 'l_.')), 'LEMMA_MULZERO(g_n%d, %s)' % (k, lp(v, k, 'stride_', 'l_.'))]
    return out

for D in (1, 2):
    G = ghosts_fn(D)
    zb = ' && '.join('g_f%d == 0' % k for k in range(D))
    one = dict(group='elements', cxx={'self': EIrec(D)}, mode='uf', ghosts=G)
    N = total(D)
    # ---- dereference: *it and operator->
    for nm, fn in (('deref', r'operator\*\(\) const'), ('arrow', r'operator->\(\) const')):
        Check('E%d_%s' % (D, nm), ['C02', 'C03'], params=['self'], fn_re=E(EIn(D)) + '::' + fn,
              wrapper=('double*', 'EI<%d> const* self' % D, 'return &**self;' if nm == 'deref' else 'return self->operator->();'),
              requires=[SYNC('self', D), zb, 'self->n_ < %s' % N], lemmas=sync_lemmas('self', D),
              ensures=[('designates the element at index tuple ns_ (the n_-th in canonical order)', 'RET == %s' % addr('self', D))], assigns=[], **one)
    # ---- ++ / --
    if D == 1:
        inc_l = []; dec_l = []
    else:
        inc_l = ['LEMMA_DIST(self->ns_.head_#0, 1, g_n1)', 'LEMMA_MUL1(g_n1)', 'LEMMA_MUL0(g_n1)']
        dec_l = ['LEMMA_DISTSUB(self->ns_.head_#0, 1, g_n1)', 'LEMMA_MUL1(g_n1)', 'LEMMA_MUL0(g_n1)']
    Check('E%d_inc' % D, ['C02', 'C03'], params=['self'], fn_re=E(EIn(D)) + r'::operator\+\+\(\)',
          wrapper=('void', 'EI<%d>* self' % D, '++*self;'), requires=[SYNC('self', D), zb, 'self->n_ < %s' % N], lemmas=sync_lemmas('self', D) + inc_l,
          ensures=[('++ advances the canonical position by one', 'self->n_ == OLD(self->n_) + 1'),
                   ('index tuple stays in sync (unless the end was reached)', 'IMPLIES(self->n_ < %s, %s)' % (N, SYNC('self', D))),
                   ('returns *this', 'RET == self')], assigns=['*self'], **one)
    Check('E%d_dec' % D, ['C02', 'C03'], params=['self'], fn_re=E(EIn(D)) + r'::operator--\(\)',
          wrapper=('void', 'EI<%d>* self' % D, '--*self;'), requires=[SYNC('self', D), zb, 'self->n_ > 0'], lemmas=sync_lemmas('self', D) + dec_l,
          ensures=[('-- moves the canonical position back by one', 'self->n_ == OLD(self->n_) - 1'),
                   ('index tuple stays in sync', SYNC('self', D)), ('returns *this', 'RET == self')], assigns=['*self'], **one)
    # ---- += / -=
    for nm, op, sign in (('addassign', r'operator\+=\(long\)', '+'), ('subassign', r'operator-=\(long\)', '-')):
        tgt = 'OLD(self->n_) %s n' % sign
        tg0 = 'self->n_ %s n' % sign
        lem = sync_lemmas('self', D)
        if D == 2:
            lem += ['LEMMA_DIVMOD(%s, g_n1)' % tg0, 'LEMMA_REMRANGE(%s, g_n1)' % tg0, 'LEMMA_MUL1(g_n1)', 'LEMMA_MUL0(g_n1)',
                    'LEMMA_MONOLE(DIV(%s, g_n1), g_n0, g_n1)' % tg0, 'LEMMA_MONO(g_n0, DIV(%s, g_n1), g_n1)' % tg0, 'LEMMA_COMM(g_n0, g_n1)',
                    'LEMMA_DIVADD(g_n0, 0, g_n1)']
        Check('E%d_%s' % (D, nm), ['C02', 'C03'], params=['self', 'n'], fn_re=E(EIn(D)) + '::' + op,
              wrapper=('void', 'EI<%d>* self, multi::index n' % D, '*self %s= n;' % sign),
              requires=[SYNC('self', D), zb, 'INR(n) && 0 <= %s && %s <= %s' % (tg0, tg0, N)], lemmas=lem,
              ensures=[('it %s= n moves the canonical position by %sn' % (sign, sign), 'self->n_ == %s' % tgt),
                       ] + [('index tuple stays in sync (%d)' % i, c) for i, c in enumerate(SYNC('self', D, aslist=True))] + [('returns *this', 'RET == self')], assigns=['*self'], **one)
    # ---- copy assignment: the assigned iterator denotes the same position of the same range
    Check('E%d_assign' % D, ['C02', 'C03'], params=['self', 'other'], fn_re=E(EIn(D)) + r'::operator=\(' + E(EIn(D)) + r' const&\)',
          wrapper=('void', 'EI<%d>* self, EI<%d> const* other' % (D, D), '*self = *other;'),
          group='elements', cxx={'self': EIrec(D), 'other': EIrec(D)}, mode='exact', requires=['1'],
          ensures=[('the assigned iterator is a copy: same range, same position, same index tuple', fields_same('self', 'other', D)), ('returns *this', 'RET == self')],
          assigns=['*self'])
    # ---- comparisons / distance (exact)
    two = dict(group='elements', cxx={'a': EIrec(D), 'b': EIrec(D)}, mode='exact', requires=[fields_same('a', 'b', D, ('base_', 'l_')), 'INR(a->n_) && INR(b->n_)'], assigns=[])
    Check('E%d_equal' % D, ['C02', 'C03', 'C20'], params=['a', 'b'], fn_re=E(EIn(D)) + r'::operator==\(' + E(EIn(D)) + r' const&\) const',
          wrapper=('bool', 'EI<%d> const* a, EI<%d> const* b' % (D, D), 'return *a == *b;'), ensures=[('== iff same canonical position', 'RET == (a->n_ == b->n_)')], **two)
    Check('E%d_notequal' % D, ['C02', 'C03', 'C20'], params=['a', 'b'], fn_re=E(EIn(D)) + r'::operator!=\(' + E(EIn(D)) + r' const&\) const',
          wrapper=('bool', 'EI<%d> const* a, EI<%d> const* b' % (D, D), 'return *a != *b;'), ensures=[('!= iff different canonical position', 'RET == (a->n_ != b->n_)')], **two)
    Check('E%d_less' % D, ['C02', 'C03', 'C20'], params=['a', 'b'], fn_re=E(EIn(D)) + r'::operator<\(' + E(EIn(D)) + r' const&\) const',
          wrapper=('bool', 'EI<%d> const* a, EI<%d> const* b' % (D, D), 'return *a < *b;'), ensures=[('< iff earlier canonical position', '(RET != 0) == (a->n_ < b->n_)')], **two)
    Check('E%d_distance' % D, ['C02', 'C03', 'C20'], params=['a', 'b'], fn_re=E(EIn(D)) + r'::operator-\(' + E(EIn(D)) + r' const&\) const',
          wrapper=('multi::index', 'EI<%d> const* a, EI<%d> const* b' % (D, D), 'return *a - *b;'), ensures=[('a - b is the difference of canonical positions', 'RET == a->n_ - b->n_')], **two)

# ---------------------------------------------------------------------------------------------------------------------
# elements_range_t<double*, layout_t<D>>: elements()[k], begin(), end(), size()
def RWF(v, D, based=False):
    return ' && '.join([WF(v, D, pre='l_.', zero_based=not based), '%s == 0 && %s == 1' % (lp(v, D, 'offset_', 'l_.'), lp(v, D, 'nelems_', 'l_.')), v + '->base_ != 0'] +
                       ['g_n%d > 0' % k for k in range(D)] + (['INOFF(%s)' % total(D)] if D > 1 else []))
def rlem(v, D):
    out = sync_lemmas(v, D)
    for k in range(D):
        st = lp(v, k, 'stride_', 'l_.')
        out += ['LEMMA_DIST(g_f%d, g_n%d, %s)' % (k, k, st), 'LEMMA_MULDIV(g_f%d + g_n%d, %s)' % (k, k, st), 'LEMMA_MULDIV(g_f%d, %s)' % (k, st), 'LEMMA_MULREM(g_f%d, %s)' % (k, st)]
    out += ['LEMMA_MUL1(g_n%d)' % (D-1)]
    return out

for D in (1, 2):
    N = total(D); zb = ' && '.join('g_f%d == 0' % k for k in range(D))
    if D == 1: at = 'self->base_ + (MUL(n, self->l_.stride_))'; atl = []
    else:
        at = 'self->base_ + (MUL(DIV(n, g_n1), self->l_.stride_) + MUL(REM(n, g_n1), self->l_.sub_.stride_))'
        atl = ['LEMMA_REMRANGE(n, g_n1)', 'LEMMA_DIVMOD(n, g_n1)']
    Check('ER%d_at' % D, ['C02', 'C03'], 'elements', params=['self', 'n'], fn_re=E(ERn(D)) + r'::at_aux_\(long\) const',
          wrapper=('double*', 'ER<%d> const* self, multi::index n' % D, 'return &self->at_aux_(n);'), cxx={'self': ERrec(D)}, ghosts=ghosts_fn(D), mode='uf',
          requires=[RWF('self', D), zb, '0 <= n && n < %s' % N], lemmas=rlem('self', D) + atl,
          ensures=[('elements()[n] is the element at the n-th index tuple in canonical order', 'RET == %s' % at)], assigns=[])
    Check('ER%d_size' % D, ['C02', 'C03'], 'elements', params=['self'], fn_re=E(ERn(D)) + r'::size\(\) const',
          wrapper=('multi::index', 'ER<%d> const* self' % D, 'return self->size();'), cxx={'self': ERrec(D)}, ghosts=ghosts_fn(D), mode='uf',
          requires=[RWF('self', D), zb], lemmas=rlem('self', D),
          ensures=[('elements().size() is the number of elements', 'RET == %s' % N)], assigns=[])
    for which, pos in (('begin', '0'), ('end', N)):
        Check('ER%d_%s' % (D, which), ['C02', 'C03'], 'elements', params=['ret', 'self'], fn_re=E(ERn(D)) + r'::%s_aux_\(\) const' % which,
              wrapper=('void', 'EI<%d>* ret, ER<%d> const* self' % (D, D), 'new(ret) EI<%d>(self->%s_aux_());' % (D, which)),
              cxx={'self': ERrec(D), 'ret': EIrec(D)}, ghosts=ghosts_fn(D), mode='uf',
              requires=[RWF('self', D), zb], lemmas=rlem('self', D) + (['LEMMA_DIVADD(g_n0, 0, g_n1)', 'LEMMA_DIVADD(0, 0, g_n1)', 'LEMMA_MUL0(g_n1)', 'LEMMA_DIV0(g_n1)'] if D == 2 else []),
              ensures=[('%s() is canonical position %s of the same range' % (which, pos), 'ret->n_ == %s && %s' % (pos, fields_same('ret', 'self', D, ('base_', 'l_'))))] +
                      [('the new iterator is in sync (%d)' % i, c) for i, c in enumerate(SYNC('ret', D, aslist=True))],
              assigns=['*ret'])

# elements().front() / back()  (C02: "elements()[k], elements().front()/back() agree with it"); whole closures: begin()/end(), std::prev, operator*
for D in (1, 2):
    zb = ' && '.join('g_f%d == 0' % k for k in range(D))
    last = 'self->base_ + ' + ' + '.join('MUL(g_n%d - 1, %s)' % (k, lp('self', k, 'stride_', 'l_.')) for k in range(D))
    extra = []
    for k in range(D):
        st = lp('self', k, 'stride_', 'l_.')
        extra += ['LEMMA_DISTSUB(g_n%d, 1, %s)' % (k, st), 'LEMMA_MUL1(%s)' % st, 'LEMMA_MUL0(%s)' % st]
    if D == 2: extra += ['LEMMA_DIVADD(g_n0, 0, g_n1)', 'LEMMA_DIVADD(0, 0, g_n1)', 'LEMMA_MUL0(g_n1)', 'LEMMA_DIV0(g_n1)', 'LEMMA_DIVADD(g_n0 - 1, g_n1 - 1, g_n1)', 'LEMMA_DISTSUB(g_n0, 1, g_n1)', 'LEMMA_MUL1(g_n1)',
                         'LEMMA_REMRANGE(MUL(g_n0, g_n1) - 1, g_n1)', 'LEMMA_DIVMOD(MUL(g_n0, g_n1) - 1, g_n1)']
    Check('ER%d_front' % D, ['C02', 'C03'], 'elements', params=['self'], fn='w_ER%d_front' % D,
          wrapper=('double const*', 'ER<%d> const* self' % D, 'return &self->front();'), cxx={'self': ERrec(D)}, ghosts=ghosts_fn(D), mode='uf',
          requires=[RWF('self', D), zb], lemmas=rlem('self', D) + extra,
          ensures=[('elements().front() is the element at the first index tuple', 'RET == self->base_')], assigns=[], solvers=('cvc5', 'cadical'))
    Check('ER%d_back' % D, ['C02', 'C03'], 'elements', params=['self'], fn='w_ER%d_back' % D,
          wrapper=('double const*', 'ER<%d> const* self' % D, 'return &self->back();'), cxx={'self': ERrec(D)}, ghosts=ghosts_fn(D), mode='uf',
          requires=[RWF('self', D), zb], lemmas=rlem('self', D) + extra,
          ensures=[('elements().back() is the element at the last index tuple (n0-1, ..., n_{D-1}-1)', 'RET == %s' % last)], assigns=[], solvers=('cvc5', 'cadical'))
