"""C02 (+C20): random-access laws of array_iterator<double, D, double*> (D = 1 specialisation, D = 2, 3 generic).

Abstraction (DESIGN 4.2): an iterator of a view whose first sub-view/element lives at g_b0 and whose leading stride is `stride_`
denotes position p iff   base(it) == g_b0 + p*stride_.   Every member must have its effect on p and keep stride_/layout.
The laws of the property are corollaries: ++/-- inverse (p+1-1), (it+n)-n == it, (it+n)-it == n (MULDIV), it<jt iff jt-it>0,
it == jt iff same position (CANCEL), *it is the sub-view at that position (begin/deref contracts + S{D}_at).
"""
from common import *
import re

Group('iter', ['boost/multi/array.hpp'], prelude='''
template<multi::dimensionality_type D> using CS = multi::const_subarray<double, D, double*>;
template<multi::dimensionality_type D> using MS = multi::subarray<double, D, double*>;
template<multi::dimensionality_type D> using IT = multi::array_iterator<double, D, double*, false, false, multi::index>;
template<multi::dimensionality_type D> using CIT = multi::array_iterator<double, D, double*, true, false, multi::index>;
''')

def ITn(D, const=False): return 'boost::multi::array_iterator<double, %dl, double*, %s, false, long>' % (D, 'true' if const else 'false')
def ITrec(D, const=False): return 'boost::multi::array_iterator<double,%d,double*,%s,false,long>' % (D, 'true' if const else 'false')
def E(s): return re.escape(s)

for D in (1, 2, 3):
    B = (lambda v: v + '->ptr_') if D == 1 else (lambda v: v + '->ptr_.base_')
    ST = lambda v: v + '->stride_'
    def lay_fields(v):  # all fields of the sub-layout carried by a D>1 iterator
        return [lp(v, k, x, 'ptr_.layout_.') for k in range(D-1) for x in ('stride_', 'offset_', 'nelems_')] if D > 1 else []
    def unchanged(v): return ' && '.join(['%s == OLD(%s)' % (ST(v), ST(v))] + ['%s == OLD(%s)' % (f, f) for f in lay_fields(v)])
    def INV(v, p): return '%s == g_b0 + MUL(%s, %s) && %s != 0 && INR(%s) && INR(%s)' % (B(v), p, ST(v), ST(v), p, ST(v))
    G = [('double*', 'g_b0'), (I64, 'g_p')]
    one = dict(group='iter', cxx={'self': ITrec(D)}, mode='uf')
    Check('I%d_inc' % D, ['C02'], params=['self'], fn_re=E(ITn(D)) + r'::operator\+\+\(\)',
          wrapper=('void', 'IT<%d>* self' % D, '++*self;'), ghosts=G, requires=[INV('self', 'g_p')],
          lemmas=['LEMMA_DIST(g_p, 1, self->stride_)', 'LEMMA_MUL1(self->stride_)'],
          ensures=[('++ moves to position p+1', '%s == g_b0 + MUL(g_p + 1, %s)' % (B('self'), ST('self'))), ('stride and sub-layout kept', unchanged('self')), ('returns *this', 'RET == self')],
          assigns=['*self'], **one)
    Check('I%d_dec' % D, ['C02'], params=['self'], fn_re=E(ITn(D)) + r'::operator--\(\)',
          wrapper=('void', 'IT<%d>* self' % D, '--*self;'), ghosts=G, requires=[INV('self', 'g_p')],
          lemmas=['LEMMA_DISTSUB(g_p, 1, self->stride_)', 'LEMMA_MUL1(self->stride_)'],
          ensures=[('-- moves to position p-1', '%s == g_b0 + MUL(g_p - 1, %s)' % (B('self'), ST('self'))), ('stride and sub-layout kept', unchanged('self')), ('returns *this', 'RET == self')],
          assigns=['*self'], **one)
    Check('I%d_addassign' % D, ['C02'], params=['self', 'n'], fn_re=E(ITn(D)) + r'::operator\+=\(long\)',
          wrapper=('void', 'IT<%d>* self, multi::index n' % D, '*self += n;'), ghosts=G, requires=[INV('self', 'g_p'), 'INR(n)'],
          lemmas=['LEMMA_DIST(g_p, n, self->stride_)', 'LEMMA_COMM(self->stride_, n)'],
          ensures=[('it += n moves to position p+n', '%s == g_b0 + MUL(g_p + n, %s)' % (B('self'), ST('self'))), ('stride and sub-layout kept', unchanged('self')), ('returns *this', 'RET == self')],
          assigns=['*self'], **one)
    Check('I%d_subassign' % D, ['C02'], params=['self', 'n'], fn_re=E(ITn(D)) + r'::operator-=\(long\)',
          wrapper=('void', 'IT<%d>* self, multi::index n' % D, '*self -= n;'), ghosts=G, requires=[INV('self', 'g_p'), 'INR(n)'],
          lemmas=['LEMMA_DISTSUB(g_p, n, self->stride_)', 'LEMMA_COMM(self->stride_, n)', 'LEMMA_COMM(self->stride_, -n)', 'LEMMA_MULNEG(n, self->stride_)'],
          ensures=[('it -= n moves to position p-n', '%s == g_b0 + MUL(g_p - n, %s)' % (B('self'), ST('self'))), ('stride and sub-layout kept', unchanged('self')), ('returns *this', 'RET == self')],
          assigns=['*self'], **one)
    two = dict(group='iter', cxx={'a': ITrec(D), 'b': ITrec(D)}, mode='uf')
    G2 = [('double*', 'g_b0'), (I64, 'g_pa'), (I64, 'g_pb')]
    same = ' && '.join(['a->stride_ == b->stride_'] + ['%s == %s' % (x, y) for x, y in zip(lay_fields('a'), lay_fields('b'))] +
                       ([lp('a', D-1, 'nelems_', 'ptr_.layout_.') + ' == ' + lp('b', D-1, 'nelems_', 'ptr_.layout_.'), lp('a', D-1, 'offset_', 'ptr_.layout_.') + ' == ' + lp('b', D-1, 'offset_', 'ptr_.layout_.')] if D > 1 else []))
    req2 = [INV('a', 'g_pa'), INV('b', 'g_pb'), same, 'PTR_SANE(g_b0)', 'INOFF(MUL(g_pa, a->stride_)) && INOFF(MUL(g_pb, b->stride_))   /* element offsets fit the address space */']
    lem2 = ['LEMMA_DISTSUB(g_pa, g_pb, a->stride_)', 'LEMMA_MULDIV(g_pa - g_pb, a->stride_)', 'LEMMA_MULREM(g_pa - g_pb, a->stride_)', 'LEMMA_CANCEL(g_pa, g_pb, a->stride_)',
            'LEMMA_DISTSUB(g_pb, g_pa, a->stride_)', 'LEMMA_MULDIV(g_pb - g_pa, a->stride_)', 'LEMMA_MULREM(g_pb - g_pa, a->stride_)']
    minus_fn = (E(ITn(D)) + r'::operator-\(' + E(ITn(D)) + r' const&\) const') if D == 1 else (r'boost::multi::operator-\(' + E(ITn(D)) + ' const&, ' + E(ITn(D)) + r' const&\)')
    Check('I%d_distance' % D, ['C02', 'C20'], params=['a', 'b'], fn_re=minus_fn,
          wrapper=('multi::index', 'IT<%d> const* a, IT<%d> const* b' % (D, D), 'return *a - *b;'), ghosts=G2, requires=req2, lemmas=lem2,
          ensures=[('a - b is the difference of the positions', 'RET == g_pa - g_pb')], assigns=[], **two)
    Check('I%d_equal' % D, ['C02', 'C20'], params=['a', 'b'], fn_re=E(ITn(D)) + r'::operator==\(' + E(ITn(D)) + r' const&\) const',
          wrapper=('bool', 'IT<%d> const* a, IT<%d> const* b' % (D, D), 'return *a == *b;'), ghosts=G2, requires=req2, lemmas=lem2,
          ensures=[('a == b iff same position', 'RET == (g_pa == g_pb)')], assigns=[], **two)
    Check('I%d_less' % D, ['C02', 'C20'], params=['a', 'b'], fn_re=E(ITn(D)) + r'::operator<\(' + E(ITn(D)) + r' const&\) const',
          wrapper=('bool', 'IT<%d> const* a, IT<%d> const* b' % (D, D), 'return *a < *b;'), ghosts=G2, requires=req2, lemmas=lem2,
          ensures=[('a < b iff position(a) < position(b)', 'RET == (g_pa < g_pb)')], assigns=[], **two)
    # const / mutable iterators to one position compare equal
    Check('I%d_equal_const' % D, ['C02', 'C20'], params=['a', 'b'],
          fn_re=(r'bool ' if D > 1 else r'bool ') + E(ITn(D)) + r'::operator==<true, 0>\(' + E(ITn(D, True)).replace(r',\ long', r'(,\ long)?') + r' const&\) const',
          wrapper=('bool', 'IT<%d> const* a, CIT<%d> const* b' % (D, D), 'return *a == *b;'), ghosts=G2,
          cxx={'a': ITrec(D), 'b': ITrec(D, True)}, group='iter', mode='uf', requires=req2, lemmas=lem2,
          ensures=[('mutable == const iterator iff same position', 'RET == (g_pa == g_pb)')], assigns=[])
    # dereference
    if D > 1:
        Check('I%d_deref' % D, ['C02'], params=['ret', 'self'], fn_re=E(ITn(D)) + r'::operator\*\(\) const',
              wrapper=('void', 'MS<%d>* ret, IT<%d> const* self' % (D-1, D), 'new(ret) MS<%d>(**self);' % (D-1)),
              cxx={'self': ITrec(D), 'ret': MSUB(D-1)}, group='iter', mode='exact', requires=['1'],
              ensures=[('*it is the sub-view with the carried sub-layout at the current position',
                        'ret->base_ == self->ptr_.base_ && ' + ' && '.join('%s == %s' % (lp('ret', k, x), lp('self', k, x, 'ptr_.layout_.')) for k in range(D-1) for x in ('stride_', 'offset_', 'nelems_')))],
              assigns=['*ret'])
    else:
        Check('I1_deref', ['C02'], params=['self'], fn_re=E(ITn(1)) + r'::operator\*\(\) const',
              wrapper=('double*', 'IT<1> const* self', 'return &**self;'), cxx={'self': ITrec(1)}, group='iter', mode='exact', requires=['1'],
              ensures=[('*it is the element at the current position', 'RET == self->ptr_')], assigns=[])
    # it[n] is *(it + n)   (whole closure: the random-access mix-in operator+, operator+=, operator*)
    if D > 1:
        Check('I%d_index' % D, ['C02'], params=['ret', 'self', 'n'], fn='w_I%d_index' % D,
              wrapper=('void', 'MS<%d>* ret, IT<%d> const* self, multi::index n' % (D-1, D), 'new(ret) MS<%d>((*self)[n]);' % (D-1)),
              cxx={'self': ITrec(D), 'ret': MSUB(D-1)}, group='iter', mode='uf', ghosts=G, requires=[INV('self', 'g_p'), 'INR(n)'],
              lemmas=['LEMMA_DIST(g_p, n, self->stride_)', 'LEMMA_COMM(self->stride_, n)'],
              ensures=[('it[n] is the sub-view at position p+n with the carried sub-layout',
                        'ret->base_ == g_b0 + MUL(g_p + n, self->stride_) && ' + ' && '.join('%s == %s' % (lp('ret', k, x), lp('self', k, x, 'ptr_.layout_.')) for k in range(D-1) for x in ('stride_', 'offset_', 'nelems_'))),
                       ('the iterator itself is not moved', '%s == OLD(%s) && %s' % (B('self'), B('self'), unchanged('self')))],
              covers=['n < 0', 'n > 1'], assigns=['*ret'])
    else:
        Check('I1_index', ['C02'], params=['self', 'n'], fn='w_I1_index',
              wrapper=('double*', 'IT<1> const* self, multi::index n', 'return &(*self)[n];'), cxx={'self': ITrec(1)}, group='iter', mode='uf', ghosts=G,
              requires=[INV('self', 'g_p'), 'INR(n)'], lemmas=['LEMMA_DIST(g_p, n, self->stride_)', 'LEMMA_COMM(self->stride_, n)'],
              ensures=[('it[n] is the element at position p+n', 'RET == g_b0 + MUL(g_p + n, self->stride_)'),
                       ('the iterator itself is not moved', '%s == OLD(%s) && %s' % (B('self'), B('self'), unchanged('self')))],
              covers=['n < 0', 'n > 1'], assigns=[])
    # begin / end of a view
    for zb in (True, False):
        suf = '' if zb else '_b'; props = ['C02'] if zb else ['C19']
        zreq = [' && '.join('g_f%d == 0' % k for k in range(D))] if zb else []
        zlem = ['LEMMA_MUL0(%s)' % lp('self', k, 'stride_') for k in range(D)] if zb else []
        inner = ' && '.join('%s == %s' % (lp('ret', k, x, 'ptr_.layout_.'), lp('self', k+1, x)) for k in range(D-1) for x in ('stride_', 'offset_', 'nelems_')) or '1'
        for which, pos in (('begin', '0'), ('end', 'g_n0')):
            R = 'ret->' if D > 1 else 'RET.'
            Bret = (R + 'ptr_.base_') if D > 1 else (R + 'ptr_')
            inner = ' && '.join('%s == %s' % (lp('ret', k, x, 'ptr_.layout_.'), lp('self', k+1, x)) for k in range(D-1) for x in ('stride_', 'offset_', 'nelems_')) or '1'
            Check('I%d_%s%s' % (D, which, suf), props, params=['ret', 'self'] if D > 1 else ['self'],
                  fn_re=r'boost::multi::const_subarray<double, %dl, double\*, boost::multi::layout_t<%dl, long> >::%s_aux_\(\) const' % (D, D, which),
                  wrapper=('void', 'IT<%d>* ret, CS<%d> const* self' % (D, D), 'new(ret) IT<%d>(self->%s_aux_());' % (D, which)) if D > 1 else
                          ('IT<1>', 'CS<1> const* self', 'return self->%s_aux_();' % which),
                  cxx={'self': SUB(D), 'ret': ITrec(D), 'RET': ITrec(D)}, group='iter', mode='uf', ghosts=ghosts_fn(D),
                  requires=[WF('self', D), 'self->base_ != 0'] + zreq,
                  lemmas=WF_lemmas('self', D, dims=[0]) + zlem + ['LEMMA_DIST(g_f0, %s, self->stride_)' % pos, 'LEMMA_MUL0(self->stride_)'],
                  ensures=[('%s() is position %s: the address indexing with f0+%s yields' % (which, pos, pos),
                            '%s == self->base_ + (MUL(g_f0 + %s, self->stride_) - self->offset_)' % (Bret, pos)),
                           ('carries the leading stride and the sub-layout', R + 'stride_ == self->stride_ && ' + inner)],
                  assigns=['*ret'] if D > 1 else [])
