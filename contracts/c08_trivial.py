"""C08 (last sentence): sizing constructors and reextent without a fill value do not write to elements of trivially default-constructible types.

Skeleton contracts on multi::array<double, D> (std::allocator): with the allocation replaced by a recording stub, the constructor / reextent
closure contains no loop and no call that could write an element unless the library asks an ISO algorithm to do so.  Every such algorithm
(std::uninitialized_default_construct_n, std::uninitialized_value_construct_n, std::uninitialized_fill_n, std::fill_n on double*) is an OPTIONAL
recording stub: it matches no function of the unchanged tree (the library guards the construction with `if constexpr(!trivially default
constructible)`), and the postcondition demands that none of them is called.  A hand-written element loop would show up as an unwinding
assertion (undecided) -- the closure is otherwise loop-free."""
from common import *
from vf import Stub
import c04_own as own
prod = own.prod; canonical_ens = own.canonical_ens; storage = own.storage; is_canonical = own.is_canonical; ARR = own.ARR; NEW = own.NEW; DEL = own.DEL

Group('own2', ['boost/multi/array.hpp'], profile='I', prelude='''
template<multi::dimensionality_type D> using AR = multi::array<double, D>;
''', cut=[r'_ZSt.*terminate', r'_ZNSt7__cxx11', r'_ZSt9to_string', r'_ZSt20__throw_length_error', r'_ZSt17__throw_bad_alloc', r'_ZSt28__throw_bad_array_new_length'],
      noinline=[r'^_ZSt3[0-9]uninitialized_(default|value)_construct_n', r'^_ZSt20uninitialized_fill_n', r'^_ZSt6fill_n', r'subarray<double, \dl.*::operator=<double, double\*', r'^_ZNSt7__cxx11'])
WRITERS = [Stub(r'.*std::uninitialized_default_construct_n<double\*.*', count='g_w_dc', ret='g_w_r1', optional=True),
           Stub(r'.*std::uninitialized_value_construct_n<double\*.*', count='g_w_vc', ret='g_w_r2', optional=True),
           Stub(r'double\* std::uninitialized_fill_n<double\*, unsigned long, double>\(.*', count='g_w_uf', ret='g_w_r3', optional=True),
           Stub(r'double\* std::fill_n<double\*, unsigned long, double>\(.*', count='g_w_f', ret='g_w_r4', optional=True)]
NOWRITE = 'g_w_dc == 0 && g_w_vc == 0 && g_w_uf == 0 && g_w_f == 0'
for D in (1, 2, 3):
    xs = ['x%d' % k for k in range(D)]; Nx = prod(xs)
    Check('O%d_ctor_sizing' % D, ['C08', 'C04'], 'own2', fn='w_O%d_ctor_sizing' % D, params=['ret'] + xs,
          wrapper=('void', 'AR<%d>* ret, %s' % (D, ', '.join('long %s' % x for x in xs)), 'new(ret) AR<%d>(multi::extensions_t<%d>{%s});' % (D, D, ', '.join(xs))),
          cxx={'ret': ARR(D)}, ghosts=[], stubs=[NEW, DEL] + WRITERS, mode='uf',
          requires=[' && '.join('0 <= %s && %s < SMALL' % (x, x) for x in xs), 'INOFF(%s)' % Nx, 'g_block != 0'],
          lemmas=own.prod_lemmas(xs, ['0']*D),
          ensures=canonical_ens('ret', D, xs, ['0']*D, lambda k: '%s == 0' % prod(xs[k:])) + [
                   ('storage for exactly num_elements() elements is obtained once and becomes the base', 'IMPLIES(EXC == 0, %s)' % storage('ret', Nx)),
                   ('the sizing constructor does not write to the elements of a trivially default-constructible type: no construction / fill algorithm is invoked', 'IMPLIES(EXC == 0, %s)' % NOWRITE)],
          covers=['EXC == 0 && x0 > 1', 'EXC == 0 && %s == 0' % Nx], assigns=['*ret'], objbits=12, timeout=900, unwind=4, cbmc_flags=['--no-pointer-check'], solvers=('cvc5', 'cadical'))
for D in (2,):
    na = ['g_n%d' % k for k in range(D)]; fa = ['g_f%d' % k for k in range(D)]; xs = ['x%d' % k for k in range(D)]
    ASG = Stub(r'boost::multi::subarray<double, %dl, double\*, boost::multi::layout_t<%dl, long> >& boost::multi::subarray<double, %dl, double\*, boost::multi::layout_t<%dl, long> >::operator=<double, double\*, boost::multi::layout_t<%dl, long> >\(boost::multi::const_subarray<double, %dl, double\*, boost::multi::layout_t<%dl, long> >&&\) &&' % ((D,)*7),
               count='g_as_calls', ret='g_as_ret')
    Check('O%d_reextent_nowrite' % D, ['C08', 'C06'], 'own2', fn='w_O%d_reextent_nowrite' % D, params=['self'] + xs,
          wrapper=('void', 'AR<%d>* self, %s' % (D, ', '.join('long %s' % x for x in xs)), 'self->reextent({%s});' % ', '.join(xs)),
          cxx={'self': ARR(D)}, ghosts=ghosts_fn(D), stubs=[NEW, DEL, ASG] + WRITERS, mode='narrow:5',
          requires=[' && '.join('0 <= %s && %s < 16 && %s == 0 && 0 <= %s && %s < 16' % (n, n, f, x, x) for n, f, x in zip(na, fa, xs)), is_canonical('self', D, na, fa), '%s < 16 && %s < 16' % (prod(na), prod(xs)),
                    'g_block != 0 && self->base_ != 0 && PTR_SANE(self->base_) && PTR_SANE(g_block)'],
          ensures=[('reextent without a fill value does not write to the new elements of a trivially default-constructible type: apart from the copy of the common part (one view assignment) no construction / fill algorithm is invoked',
                    'IMPLIES(EXC == 0, %s && g_as_calls <= 1)' % NOWRITE)],
          covers=['EXC == 0 && g_as_calls == 1 && x0 > g_n0'], assigns=['*self'], objbits=12, timeout=1200, unwind=4, cbmc_flags=['--no-pointer-check'],
          bounded='every operand of a multiplication or division |x| < 16 (extents); arithmetic bit-precise within that bound')
