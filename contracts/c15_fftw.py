"""C15: FFTW adaptor -- the plan builder fftw_plan_dft(which, in_base, in_layout, out_base, out_layout, sign, flags).

FFTW's guru interface fftw_plan_guru64_dft(rank, dims, howmany_rank, howmany_dims, in, out, sign, flags) is an ASSUMED contract
(it plans the DFT over `dims` (n, input stride, output stride) batched over `howmany_dims`); the stub records all arguments.  Proved,
for every mask `which`, all extents and arbitrary (independent) input/output strides:
  * exactly the selected dimensions appear in dims, the others in howmany_dims, each with (extent, input stride, output stride) of that
    dimension, in stable order; rank + howmany_rank == D;
  * the view bases, the sign and FFTW_PRESERVE_INPUT are passed; the plan returned is the one FFTW returned.
The builder's loops (tuple_zip, stable_partition, transform) are bounded by D+1 and fully unwound (unwinding assertions on): complete for
the instantiated D.  std::stable_partition's temporary buffer allocation may fail (both paths explored)."""
from common import *
from vf import Stub

Group('fftw', ['boost/multi/array.hpp', 'boost/multi/adaptors/fftw.hpp', 'complex'], profile='O', libs=['-lfftw3'], prelude='''
using Z = std::complex<double>;
template<multi::dimensionality_type D> using L = multi::layout_t<D>;
''', noinline=[r'^_ZNSt7__cxx11', r'^_ZSt9to_string', r'std::stable_partition<std::pair<bool, fftw_iodim64', r'^_ZN5boost5multi13fftw_plan_dftIPK?St7complexIdE', r'fftw_plan_dft<.*\{lambda\(auto:1\)#1\}::operator\(\)<std::pair<bool'], cut=[r'_ZNSt7__cxx11', r'_ZSt.*terminate'])

for D in (1, 2, 3):
    dimf = lambda arr, pos, f: '%s[%s].%s' % (arr, pos, f)
    def pos(d):   # number of earlier dimensions with the same selection flag (stable order)
        return ' + '.join(['0'] + ['(which[%d] == which[%d])' % (k, d) for k in range(d)])
    G = ghosts_fn(D)
    ens_dims = []
    for d in range(D):
        trip = lambda arr: '%s[%s].n == g_n%d && %s[%s].is == %s && %s[%s].os == %s' % (arr, pos(d), d, arr, pos(d), lp('in', d, 'stride_'), arr, pos(d), lp('out', d, 'stride_'))
        ens_dims.append(('dimension %d goes to dims (transformed) iff selected, else to howmany_dims (batch), with its extent and its input/output strides, in stable order' % d,
                         'IMPLIES(g_calls == 1, which[%d] ? (%s) : (%s))' % (d, trip('g_dims'), trip('g_hdims'))))
    nsel = ' + '.join('(which[%d] != 0)' % k for k in range(D))
    # `_inplace`: input and output are two (possibly differently strided) views of one and the same storage (catches seed C15-3: the harness-owned
    # objects of the out-of-place form never share a base pointer)
    for isuf, inplace, OB in (('', False, 'out_base'), ('_inplace', True, 'in_base')):
        Check('F%d_plan%s' % (D, isuf), ['C15'], 'fftw', fn='w_F%d_plan%s' % (D, isuf), params=['which', 'in_base', 'in'] + ([] if inplace else ['out_base']) + ['out', 'sign'],
              wrapper=('fftw_plan', ('bool const* which, Z* in_base, L<%d> const* in, L<%d> const* out, int sign' if inplace else 'bool const* which, Z* in_base, L<%d> const* in, Z* out_base, L<%d> const* out, int sign') % (D, D),
                       'std::array<bool, %d> w{}; for(int k = 0; k != %d; ++k) { w[k] = which[k]; } return multi::fftw_plan_dft(w, in_base, *in, %s, *out, sign, multi::fftw::estimate);' % (D, D, OB)),
              cxx={'in': LAY(D), 'out': LAY(D)}, ghosts=G,
              decl={'which': '_Bool which_obj[%d]; _Bool *which = which_obj;' % D},
              setup=' '.join('which_obj[%d] = nondet__Bool();' % k for k in range(D)),
              stubs=[Stub('fftw_plan_guru64_dft', record=[('g_rank', 0, None), ('g_hrank', 2, None), ('g_in', 4, None, 'ptr'), ('g_out', 5, None, 'ptr'), ('g_sign', 6, None), ('g_flags', 7, None)],
                          ret='g_plan', count='g_calls', ghosts=['g_dims', 'g_hdims'],
                          decl='struct { I64 n, is, os; } g_dims[%d], g_hdims[%d];' % (D, D),
                          body='for(int k_ = 0; k_ < %d; k_++){ if(k_ < a0){ g_dims[k_].n = a1[k_].f0; g_dims[k_].is = a1[k_].f1; g_dims[k_].os = a1[k_].f2; } if(k_ < a2){ g_hdims[k_].n = a3[k_].f0; g_hdims[k_].is = a3[k_].f1; g_hdims[k_].os = a3[k_].f2; } }' % D),
                     # ISO [alg.partitions] std::stable_partition as an executable specification (assumed contract).  The O1 pipeline has specialised
                     # the instantiation on the library's predicate `get<0>(elem)` (the selection flag, first member of the pair); the stub uses that flag.
                     Stub(r'std::pair<bool, fftw_iodim64_do_not_use_me>\* std::stable_partition<std::pair<bool, fftw_iodim64_do_not_use_me>\*, boost::multi::fftw_plan_dft<std::complex<double>\*, boost::multi::layout_t<%dl, long>.*' % D,
                          body='{ long n_ = a1 - a0, k_ = 0, p_; __typeof__(*a0) t_[%d]; __CPROVER_assume(0 <= n_ && n_ <= %d); for(long i_ = 0; i_ < n_; i_++) if(a0[i_].f0) t_[k_++] = a0[i_]; p_ = k_; '
                               'for(long i_ = 0; i_ < n_; i_++) if(!a0[i_].f0) t_[k_++] = a0[i_]; for(long i_ = 0; i_ < n_; i_++) a0[i_] = t_[i_]; return a0 + p_; }' % (D+1, D+1))],
              requires=[WF('in', D, zero_based=True), WF('out', D, zero_based=True), '%s == 1 && %s == 1' % (lp('in', D, 'nelems_'), lp('out', D, 'nelems_')),
                        'in_base != 0 && %s != 0 && (sign == 1 || sign == -1)' % OB, 'g_plan != 0   /* FFTW succeeds in planning */'],
              lemmas=WF_lemmas('in', D) + WF_lemmas('out', D) + ['LEMMA_MUL0(%s)' % lp(v, k, 'stride_') for v in ('in', 'out') for k in range(D)],
              ensures=[('exactly one plan is requested from FFTW and returned', 'g_calls == 1 && RET == g_plan'),
                       ('view bases, sign and FFTW_PRESERVE_INPUT are passed', '(void*)g_in == (void*)in_base && (void*)g_out == (void*)%s && g_sign == sign && (g_flags & (1U << 4)) != 0' % OB),
                       ('rank is the number of selected dimensions, the rest are batch dimensions', 'g_rank == %s && g_rank + g_hrank == %d' % (nsel, D))] + ens_dims,
              covers=[' && '.join('which[%d]' % k for k in range(D)), ' && '.join('!which[%d]' % k for k in range(D))] + (['which[0] && !which[1]', '!which[0] && which[1]'] if D > 1 else []),
              assigns=[], mode='uf', objbits=12, timeout=1500, unwind=D+3, solvers=('minisat', 'cadical'), cbmc_flags=['--no-pointer-check'])

# ---------------------------------------------------------------------------------------------------------------------
# fftw::dft(which, in, out, sign): plan lifetime and execution.  fftw_plan_dft (proved above) is used through its contract (recording stub);
# fftw_execute_dft and fftw_destroy_plan are external assumed contracts.  Proved: the transform is never skipped -- one plan is built from
# exactly (which, in.base(), in.layout(), out.base(), out.layout(), sign), executed exactly once on (in.base(), out.base()) while alive,
# and destroyed exactly once afterwards.
def ZSUB(D): return r're:boost::multi::const_subarray<std::complex<double>,%d,std::complex<double>\*(,boost::multi::layout_t<%d>)?>' % (D, D)
def ZMSUB(D): return r're:boost::multi::subarray<std::complex<double>,%d,std::complex<double>\*(,boost::multi::layout_t<%d>)?>' % (D, D)
for D in (1, 2):
    NOOP = '(' + ' && '.join('!which[%d]' % k for k in range(D)) + ' && in->base_ == out->base_ && ' + ' && '.join('%s == %s' % (lp('in', k, x), lp('out', k, x)) for k in range(D) for x in ('stride_', 'offset_', 'nelems_')) + ')'   # empty selection on one and the same view: nothing to compute
    lay_eq = lambda g, v: ' && '.join('%s.%s%s == %s' % (g, 'sub_.'*k, x, lp(v, k, x)) for k in range(D) for x in ('stride_', 'offset_', 'nelems_'))
    Check('F%d_dft' % D, ['C15'], 'fftw', fn='w_F%d_dft' % D, params=['which', 'in', 'out', 'sign'],
          wrapper=('void', 'bool const* which, multi::const_subarray<Z, %d, Z*> const* in, multi::subarray<Z, %d, Z*>* out, int sign' % (D, D),
                   'std::array<bool, %d> w{}; for(int k = 0; k != %d; ++k) { w[k] = which[k]; } multi::fftw::dft(w, *in, *out, static_cast<multi::fftw::sign>(sign));' % (D, D)),
          cxx={'in': ZSUB(D), 'out': ZMSUB(D)},
          decl={'which': '_Bool which_obj[%d]; _Bool *which = which_obj;' % D},
          setup=' '.join('which_obj[%d] = nondet__Bool();' % k for k in range(D)) + ' g_clock = 0; g_plan_t = 0; g_exec_t = 0; g_destroy_t = 0;',
          stubs=[Stub(r'fftw_plan_s\* boost::multi::fftw_plan_dft<std::complex<double> const\*, boost::multi::layout_t<%dl, long>, std::complex<double>\*, boost::multi::layout_t<%dl, long>, %dl>\(.*' % (D, D, D),
                      record=[('g_which', 0, None), ('g_pin', 1, None, 'ptr'), ('g_lin', 2, LAY(D)), ('g_pout', 3, None, 'ptr'), ('g_lout', 4, LAY(D)), ('g_sign', 5, None)],
                      ret='g_plan', count='g_plans', decl='int g_clock, g_plan_t, g_exec_t, g_destroy_t;', ghosts=['g_clock', 'g_plan_t', 'g_exec_t', 'g_destroy_t'], body='g_plan_t = ++g_clock;'),
                 Stub('fftw_execute_dft', record=[('g_xplan', 0, None, 'ptr'), ('g_xin', 1, None, 'ptr'), ('g_xout', 2, None, 'ptr')], count='g_execs', body='g_exec_t = ++g_clock;'),
                 Stub('fftw_destroy_plan', record=[('g_dplan', 0, None, 'ptr')], count='g_destroys', body='g_destroy_t = ++g_clock;')],
          requires=['in->base_ != 0 && out->base_ != 0 && (sign == 1 || sign == -1) && g_plan != 0'],
          ensures=[(lab, 'IMPLIES(!(' + NOOP + '), %s)' % e) for lab, e in [
                   ('one plan, built from exactly the two views, the mask and the sign',
                    'g_plans == 1 && (void*)g_pin == (void*)in->base_ && (void*)g_pout == (void*)out->base_ && g_sign == sign && %s && %s' % (lay_eq('g_lin', 'in'), lay_eq('g_lout', 'out'))),
                   ('the mask is passed unchanged', ' && '.join('(((g_which >> %d) & 1) != 0) == (which[%d] != 0)' % (8*k, k) for k in range(D))),
                   ('the plan is executed exactly once on the two view bases', 'g_execs == 1 && g_xplan == g_plan && (void*)g_xin == (void*)in->base_ && (void*)g_xout == (void*)out->base_'),
                   ('the plan is destroyed exactly once, after its execution', 'g_destroys == 1 && g_dplan == g_plan && g_plan_t < g_exec_t && g_exec_t < g_destroy_t')]],
          covers=['!which[0]', 'which[0] && in->base_ == out->base_'],
          assigns=[], mode='exact', objbits=12, timeout=900, unwind=D+3, cbmc_flags=['--no-pointer-check'])
