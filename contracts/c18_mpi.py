"""C18: MPI messages -- mpi::skeleton / mpi::message built from a layout.

The MPI datatype constructors are ASSUMED contracts (MPI-4 standard, section 5.1: hvector, create_resized, dup, commit, free); they are
replaced by stubs that build a ghost type table: every created handle points to a record {kind, count, blocklength, byte stride, lb,
extent, old type, committed, freed}.  By the standard's typemap rules, a type  resized(hvector(c, 1, S, T), lb = 0, extent = S)  places
the j-th copy of T at byte displacement j*S and has extent S.  Proved for all layouts (every stride combination, D = 1..3):
  * count() is the leading extent;  the datatype is the nest  R_0 = resized(hvector(1,1,s_0*sz, R_1), 0, s_0*sz),
    R_k = resized(hvector(n_k,1,s_k*sz, R_{k+1}), 0, s_k*sz), R_D = element type  -- hence element (i_0..i_{D-1}) of the message of
    `count` items sits at byte displacement sum_k i_k*s_k*sz = byteaddr(view, i) - buffer, in canonical (lexicographic) order, nothing else;
  * the returned datatype is committed; every other handle created on the way is freed exactly once; the returned one is not freed."""
from common import *
from vf import Stub

MPI_INC = ['-I/usr/lib/x86_64-linux-gnu/openmpi/include', '-I/usr/lib/x86_64-linux-gnu/openmpi/include/openmpi']
Group('mpi', ['boost/multi/array.hpp', 'boost/multi/adaptors/mpi.hpp'], profile='O', flags=MPI_INC, libs=['-lmpi'], prelude='''
template<multi::dimensionality_type D> using L = multi::layout_t<D>;
''', cut=[r'_ZSt.*terminate'])

TAB = ('struct mpi_rec { int kind; I64 count, bl, stride, lb, extent; void *old; int committed, freed; } g_tab[12]; int g_nt; int g_sz;\n'
       '#define REC(h) ((struct mpi_rec*)(void*)(h))\n#define IS_REC(h) ((void*)(h) >= (void*)&g_tab[0] && (void*)(h) < (void*)&g_tab[12])\n')
def mk(kind, fields):
    return ('{ int k_ = g_nt++; __CPROVER_assume(k_ < 12); g_tab[k_].kind = %d; %s g_tab[k_].committed = 0; g_tab[k_].freed = 0; *NEW = (void*)&g_tab[k_]; return 0; }' % (kind, fields))
STUBS = [
    Stub('MPI_Type_size', decl=TAB, ghosts=['g_tab', 'g_nt'], body='{ *a1 = g_sz; return 0; }'),
    Stub('MPI_Type_create_hvector', ghosts=['g_tab', 'g_nt'], optional=True,
         body=mk(1, 'g_tab[k_].count = a0; g_tab[k_].bl = a1; g_tab[k_].stride = a2; g_tab[k_].lb = 0; g_tab[k_].extent = 0; g_tab[k_].old = (void*)a3;').replace('*NEW', '*a4')),
    Stub('MPI_Type_create_resized', ghosts=['g_tab', 'g_nt'], optional=True,
         body=mk(2, 'g_tab[k_].count = 0; g_tab[k_].bl = 0; g_tab[k_].stride = 0; g_tab[k_].lb = a1; g_tab[k_].extent = a2; g_tab[k_].old = (void*)a0;').replace('*NEW', '*a3')),
    Stub('MPI_Type_dup', ghosts=['g_tab', 'g_nt'], optional=True,
         body=mk(3, 'g_tab[k_].count = 0; g_tab[k_].bl = 0; g_tab[k_].stride = 0; g_tab[k_].lb = 0; g_tab[k_].extent = 0; g_tab[k_].old = (void*)a0;').replace('*NEW', '*a1')),
    Stub('MPI_Type_vector', ghosts=['g_tab', 'g_nt'], optional=True,
         body=mk(4, 'g_tab[k_].count = a0; g_tab[k_].bl = a1; g_tab[k_].stride = a2; g_tab[k_].lb = 0; g_tab[k_].extent = 0; g_tab[k_].old = (void*)a3;').replace('*NEW', '*a4')),
    Stub('MPI_Type_contiguous', ghosts=['g_tab', 'g_nt'], optional=True,
         body=mk(5, 'g_tab[k_].count = a0; g_tab[k_].bl = 1; g_tab[k_].stride = 0; g_tab[k_].lb = 0; g_tab[k_].extent = 0; g_tab[k_].old = (void*)a1;').replace('*NEW', '*a2')),
    Stub('MPI_Type_commit', ghosts=['g_tab'], optional=True, body='{ if(IS_REC(*a0)) REC(*a0)->committed++; return 0; }'),
    Stub('MPI_Type_free', ghosts=['g_tab'], optional=True, body='{ if(IS_REC(*a0)) REC(*a0)->freed++; *a0 = (void*)&G_ompi_mpi_datatype_null; return 0; }'),
]
def SK(): return r're:boost::multi::mpi::skeleton<double(,int)?>'
for D in (1, 2, 3):
    # walk the nest: H_0 = ret->datatype_;  V_k = REC(H_k)->old;  H_{k+1} = REC(V_k)->old
    H = ['ret->datatype_']
    V = []
    for k in range(D):
        V.append('REC(%s)->old' % H[k]); H.append('REC(%s)->old' % V[k])
    st = lambda k: 'MUL(%s, g_sz)' % lp('lyt', k, 'stride_')
    nest = []
    for k in range(D):
        cnt = '1' if k == 0 else 'g_n%d' % k
        nest.append('IS_REC(%s) && REC(%s)->kind == 2 && REC(%s)->lb == 0 && REC(%s)->extent == %s && IS_REC(%s) && REC(%s)->kind == 1 && REC(%s)->count == %s && REC(%s)->bl == 1 && REC(%s)->stride == %s'
                    % (H[k], H[k], H[k], H[k], st(k), V[k], V[k], V[k], cnt, V[k], V[k], st(k)))
    nest.append('(void*)(%s) == (void*)dt' % H[D])
    freed = ' && '.join(['REC(%s)->freed == 1' % V[k] for k in range(D)] + ['REC(%s)->freed == 1' % H[k] for k in range(1, D)])
    Check('M%d_skeleton' % D, ['C18'], 'mpi', fn='w_M%d_skeleton' % D, params=['ret', 'lyt', 'dt'],
          wrapper=('void', 'multi::mpi::skeleton<double>* ret, L<%d> const* lyt, MPI_Datatype dt' % D, 'new(ret) multi::mpi::skeleton<double>(*lyt, dt);'),
          cxx={'ret': SK(), 'lyt': LAY(D)}, ghosts=ghosts_fn(D), stubs=STUBS,
          setup='g_nt = 0; g_sz = nondet__Bool() ? 8 : 4;   /* size of the element type reported by MPI_Type_size (double / float) */',
          requires=[WF('lyt', D, zero_based=True), lp('lyt', D, 'nelems_') + ' == 1', ' && '.join('g_n%d < (1LL<<30)' % k for k in range(D)), 'dt != 0 && !IS_REC(dt)'],
          lemmas=WF_lemmas('lyt', D) + ['LEMMA_MUL0(%s)' % lp('lyt', k, 'stride_') for k in range(D)],
          ensures=[('count() is the extent of the leading dimension', 'ret->count_ == g_n0'),
                   ('the datatype is the nest of resized hvectors prescribed by the strides (byte strides = stride * sizeof(T))', ' && '.join(nest)),
                   ('the returned datatype is committed and not freed', 'REC(ret->datatype_)->committed == 1 && REC(ret->datatype_)->freed == 0'),
                   ('every other handle created on the way is freed exactly once', freed),
                   ('no other datatype is created', 'g_nt == %d' % (2*D))],
          covers=['g_n0 > 1' + (' && g_n1 > 2 && lyt->stride_ < lyt->sub_.stride_' if D > 1 else '')],
          assigns=['*ret'], mode='uf', objbits=12, timeout=900, unwind=3, cbmc_flags=['--no-pointer-check'])
