"""C01 / C19 / C20: view-forming operations of const_subarray<double, D, double*> (generic D>1 and the D=1 specialisation).

Every contract has the refinement form of DESIGN 4.1:
  requires  WF_D(self; f, n)  and arguments in the documented domain
  ensures   shape of the result (stride/offset/nelems per dimension; WF of the result follows)
  ensures   at a ghost position g_p (standing for every position) the result designates the element the documented index
            mapping prescribes:  Addr(ret, f' + p) == Addr(self, m(p)),   Addr(v, i) = v.base_ + (i*v.stride_ - v.offset_)
            (the formula of operator[], itself under contract in S{D}_at)
  ensures   untouched dimensions are field-for-field equal
The `_b` variants leave the index bases f_k free (C19, position form); the plain variants fix f_k = 0 (C01).
"""
from common import *

Group('subarray', ['boost/multi/array.hpp'], prelude='''
template<multi::dimensionality_type D> using CS = multi::const_subarray<double, D, double*>;
template<multi::dimensionality_type D> using MS = multi::subarray<double, D, double*>;
template<multi::dimensionality_type D> using CC = multi::const_subarray<double, D, double const*>;
''')

def CSn(D): return r'boost::multi::const_subarray<double, %dl, double\*, boost::multi::layout_t<%dl, long> >' % (D, D)
ST = 'self->stride_'; OF = 'self->offset_'; NE = 'self->nelems_'

def addr0(v, idx0):
    return '(%s->base_ + (MUL(%s, %s->stride_) - %s->offset_))' % (v, idx0, v, v)
def first_index(v):
    """first valid index of dimension 0 of view v (what extension().first() computes)"""
    return 'DIV(%s->offset_, %s->stride_)' % (v, v)

def variants(D):
    for zb in (True, False):
        suf = '' if zb else '_b'
        props = ['C01', 'C20'] if zb else ['C19', 'C20']
        zreq = [' && '.join('g_f%d == 0' % k for k in range(D))] if zb else []
        zlem = ['LEMMA_MUL0(%s)' % lp('self', k, 'stride_') for k in range(D)] if zb else []
        yield zb, suf, props, zreq, zlem

for D in (1, 2, 3):
    inner_same = ' && '.join(same_dim('ret', k, 'self', k) for k in range(1, D)) or '1'
    W = lambda ret, body, D=D: ('void', 'CS<%d>* ret, CS<%d> const* self, %s' % (D, D, ret), body)
    base_req = [WF('self', D), 'self->base_ != 0']
    for zb, suf, props, zreq, zlem in variants(D):
        # ---------------------------------------------------------------- operator[] / at_aux_
        for name, fnm in (('at', 'at_aux_'), ('index', r'operator\[\]')):
            if D > 1:
                Check('S%d_%s%s' % (D, name, suf), props, 'subarray',
                      fn_re=CSn(D) + r'::%s\(long\) const( &)?' % fnm, params=['ret', 'self', 'idx'],
                      wrapper=('void', 'CS<%d>* ret, CS<%d> const* self, multi::index idx' % (D-1, D),
                               'new(ret) CS<%d>(self->%s(idx));' % (D-1, 'at_aux_' if name == 'at' else 'operator[]')),
                      cxx={'self': SUB(D), 'ret': SUB(D-1)}, ghosts=ghosts_fn(D),
                      requires=base_req + zreq + ['g_f0 <= idx && idx < g_f0 + g_n0'],
                      lemmas=WF_lemmas('self', D, dims=[0]) + zlem,
                      ensures=[('sub-view has the inner dimensions of self', ' && '.join(same_dim('ret', k, 'self', k+1) for k in range(D-1))),
                               ('sub-view starts at element (idx, first...) of self', 'ret->base_ == self->base_ + (MUL(idx, self->stride_) - self->offset_)')],
                      covers=['idx == g_f0', 'idx == g_f0 + g_n0 - 1 && g_n0 > 1'],
                      assigns=['*ret'], mode='uf')
            else:
                Check('S1_%s%s' % (name, suf), props, 'subarray',
                      fn_re=CSn(1) + r'::%s\(long\) const( &)?' % fnm, params=['self', 'idx'],
                      wrapper=('double const*', 'CS<1> const* self, multi::index idx', 'return &self->%s(idx);' % ('at_aux_' if name == 'at' else 'operator[]')),
                      cxx={'self': SUB(1)}, ghosts=ghosts_fn(1),
                      requires=base_req + zreq + ['g_f0 <= idx && idx < g_f0 + g_n0'],
                      lemmas=WF_lemmas('self', 1, dims=[0]) + zlem,
                      ensures=[('reference designates element idx', 'RET == self->base_ + (MUL(idx, self->stride_) - self->offset_)')],
                      assigns=[], mode='uf')
        # ---------------------------------------------------------------- sliced(first, last)
        Check('S%d_sliced%s' % (D, suf), props, 'subarray',
              fn_re=CSn(D) + r'::sliced_aux_\(long, long\) const', params=['ret', 'self', 'first', 'last'],
              wrapper=W('multi::index first, multi::index last', 'new(ret) CS<%d>(self->sliced_aux_(first, last));' % D),
              cxx={'self': SUB(D), 'ret': SUB(D)}, ghosts=ghosts_fn(D) + [(I64, 'g_p')],
              requires=base_req + zreq + ['INR(first) && INR(last) && first <= last',
                        'first == last || (g_f0 <= first && last <= g_f0 + g_n0)', 'INR(g_p)'],
              lemmas=WF_lemmas('self', D, dims=[0]) + zlem + ['LEMMA_DIST(g_f0, g_p, self->stride_)', 'LEMMA_DIST(first, g_p, self->stride_)',
                      'LEMMA_COMM(self->stride_, last - first)', 'LEMMA_MULDIV(g_n0, self->stride_)', 'LEMMA_COMM(g_n0, self->stride_)', 'LEMMA_MULDIV(self->stride_, g_n0)'],
              ensures=[('stride kept, inner dimensions untouched', 'ret->stride_ == self->stride_ && ' + inner_same),
                       ('size is last-first', 'ret->nelems_ == MUL(last - first, ret->stride_) && REM(ret->offset_, ret->stride_) == 0'),
                       ('zero-based stays zero-based', 'IMPLIES(self->offset_ == 0, ret->offset_ == 0)'),
                       ('p-th element of result is element first+p of self',
                        'IMPLIES(0 <= g_p && g_p < last - first, %s == %s)' % (addr0('ret', first_index('ret') + ' + g_p'), addr0('self', 'first + g_p')))],
              covers=['first == last && first == g_f0 + g_n0', 'g_n0 == 0', 'g_n0 == 1 && last == first + 1', 'g_p == last - first - 1 && g_p > 2'],
              assigns=['*ret'], mode='uf')
        # ---------------------------------------------------------------- call syntax with open ranges: A(_), A(_ < last), A(first <= _)
        # (the whole closure: intersecting_range, intersection with extension(), paren_aux_, sliced; the wrapper is the function under contract)
        for pn, arg, ptxt, lo_, hi_, extra_req in (('paren_all', 'multi::_', '', 'g_f0', 'g_f0 + g_n0', []),
                                                 ('paren_upto', 'multi::_ < last', ', multi::index last', 'g_f0', 'last', ['g_f0 <= last && last <= g_f0 + g_n0']),
                                                 ('paren_from', 'first <= multi::_', ', multi::index first', 'first', 'g_f0 + g_n0', ['g_f0 <= first && first <= g_f0 + g_n0'])):
            Check('S%d_%s%s' % (D, pn, suf), props[:1], 'subarray', fn='w_S%d_%s%s' % (D, pn, suf), params=['ret', 'self'] + (['last'] if 'last' in ptxt else ['first'] if 'first' in ptxt else []),
                  wrapper=('void', '%s<%d>* ret, CS<%d> const* self%s' % ('CC' if D == 1 else 'CS', D, D, ptxt), 'new(ret) %s<%d>((*self)(%s));' % ('CC' if D == 1 else 'CS', D, arg)),
                  cxx={'self': SUB(D), 'ret': CSUB(D) if D == 1 else SUB(D)}, ghosts=ghosts_fn(D) + [(I64, 'g_p')],
                  requires=base_req + zreq + ['INR(g_p)', 'g_n0 > 0', '%s == 0 && %s == 1' % (lp('self', D, 'offset_'), lp('self', D, 'nelems_'))] + extra_req,
                  lemmas=WF_lemmas('self', D) + zlem + ['LEMMA_DIST(g_f0, g_p, self->stride_)', 'LEMMA_DIST(%s, g_p, self->stride_)' % lo_, 'LEMMA_COMM(self->stride_, (%s) - (%s))' % (hi_, lo_),
                                                    'LEMMA_MULDIV(g_n0, self->stride_)', 'LEMMA_COMM(g_n0, self->stride_)', 'LEMMA_MULDIV(self->stride_, g_n0)', 'LEMMA_MUL0(self->stride_)'],
                  ensures=[('stride kept, inner dimensions untouched', 'ret->stride_ == self->stride_ && ' + inner_same),
                           ('the open range selects exactly the indices of the extension it covers: size', 'ret->nelems_ == MUL((%s) - (%s), ret->stride_) && REM(ret->offset_, ret->stride_) == 0' % (hi_, lo_)),
                           ('p-th element of the result is the element of self with index (lower end of the selection) + p',
                            'IMPLIES(0 <= g_p && g_p < (%s) - (%s), %s == %s)' % (hi_, lo_, addr0('ret', first_index('ret') + ' + g_p'), addr0('self', '(%s) + g_p' % lo_)))],
                  covers=['g_f0 < 0 && g_n0 > 2' if not zb else 'g_n0 > 2', 'g_p > 1'],
                  assigns=['*ret'], mode='uf', solvers=('cvc5', 'cadical'), timeout=900)
        # ---------------------------------------------------------------- reindexed(k) / blocked(first, last)   (C19: re-indexing changes which indices are valid, never which elements are viewed)
        Check('S%d_reindexed%s' % (D, suf), props[:1], 'subarray', fn='w_S%d_reindexed%s' % (D, suf), params=['ret', 'self', 'k'],
              wrapper=('void', 'CS<%d>* ret, CS<%d>* self, multi::index k' % (D, D), 'new(ret) CS<%d>(self->reindexed(k));' % D),   # the const& overload does not exist for D = 1
              cxx={'self': SUB(D), 'ret': SUB(D)}, ghosts=ghosts_fn(D) + [(I64, 'g_p')],
              requires=base_req + zreq + ['INR(k) && INR(g_p)', 'INOFF(MUL(k, self->stride_))'],
              lemmas=WF_lemmas('self', D, dims=[0]) + zlem + ['LEMMA_DIST(g_f0, g_p, self->stride_)', 'LEMMA_DIST(k, g_p, self->stride_)', 'LEMMA_MULDIV(k, self->stride_)', 'LEMMA_MULREM(k, self->stride_)'],
              ensures=[('same storage, same stride and size, inner dimensions untouched', 'ret->base_ == self->base_ && ret->stride_ == self->stride_ && ret->nelems_ == self->nelems_ && ' + inner_same),
                       ('the valid indices now start at k', 'ret->offset_ == MUL(k, ret->stride_)'),
                       ('p-th element of the result is the p-th element of self (only the index changes, never the element)',
                        'IMPLIES(0 <= g_p && g_p < g_n0, %s == %s)' % (addr0('ret', 'k + g_p'), addr0('self', 'g_f0 + g_p')))],
              covers=['k < 0 && g_n0 > 1', 'k > 0 && g_p > 0'], assigns=['*ret'], mode='uf', solvers=('cvc5', 'cadical'))
        Check('S%d_blocked%s' % (D, suf), props[:1], 'subarray', fn='w_S%d_blocked%s' % (D, suf), params=['ret', 'self', 'first', 'last'],
              # the & overload: the const& overload of blocked() does not compile for D > 1 at the pinned commit (return type basic_const_array) and does not exist for D = 1
              wrapper=('void', 'CS<%d>* ret, CS<%d>* self, multi::index first, multi::index last' % (D, D), 'new(ret) CS<%d>(self->blocked(first, last));' % D),
              cxx={'self': SUB(D), 'ret': SUB(D)}, ghosts=ghosts_fn(D) + [(I64, 'g_p')],
              requires=base_req + zreq + ['INR(first) && INR(last) && first <= last', 'first == last || (g_f0 <= first && last <= g_f0 + g_n0)', 'INR(g_p)', 'INOFF(MUL(first, self->stride_))',
                                          '%s == 0 && %s == 1' % (lp('self', D, 'offset_'), lp('self', D, 'nelems_'))],
              lemmas=WF_lemmas('self', D, dims=[0]) + zlem + ['LEMMA_DIST(g_f0, g_p, self->stride_)', 'LEMMA_DIST(first, g_p, self->stride_)', 'LEMMA_COMM(self->stride_, last - first)', 'LEMMA_MULDIV(g_n0, self->stride_)',
                      'LEMMA_COMM(g_n0, self->stride_)', 'LEMMA_MULDIV(self->stride_, g_n0)', 'LEMMA_MULDIV(first, self->stride_)', 'LEMMA_MULREM(first, self->stride_)', 'LEMMA_MUL0(self->stride_)'],
              ensures=[('stride kept, inner dimensions untouched', 'ret->stride_ == self->stride_ && ' + inner_same),
                       ('the block keeps the indices [first, last) of self', 'ret->nelems_ == MUL(last - first, ret->stride_) && ret->offset_ == MUL(first, ret->stride_)'),
                       ('element first+p of the block is element first+p of self', 'IMPLIES(0 <= g_p && g_p < last - first, %s == %s)' % (addr0('ret', 'first + g_p'), addr0('self', 'first + g_p')))],
              covers=['first > g_f0 && last < g_f0 + g_n0 && g_p > 0', 'first == last'], assigns=['*ret'], mode='uf', solvers=('cvc5', 'cadical'))
        # ---------------------------------------------------------------- diagonal()  (D >= 2, zero-based: the library slices with {0, min(n0,n1)})
        if D >= 2 and zb:
            sq = '(g_n0 < g_n1 ? g_n0 : g_n1)'
            Check('S%d_diagonal' % D, ['C01'], 'subarray', fn='w_S%d_diagonal' % D, params=['ret', 'self'],
                  wrapper=('void', 'CS<%d>* ret, CS<%d> const* self' % (D-1, D), 'new(ret) CS<%d>(self->diagonal());' % (D-1)),
                  cxx={'self': SUB(D), 'ret': SUB(D-1)}, ghosts=ghosts_fn(D) + [(I64, 'g_p')],
                  requires=base_req + zreq + ['INR(g_p)', '%s == 0 && %s == 1' % (lp('self', D, 'offset_'), lp('self', D, 'nelems_')), 'g_n0 > 0 && g_n1 > 0', 'INOFF(self->stride_ + self->sub_.stride_)', 'self->stride_ + self->sub_.stride_ != 0'],
                  lemmas=WF_lemmas('self', D, dims=[0, 1]) + zlem + ['LEMMA_DIST(g_p, g_p, 1)', 'LEMMA_DISTL(g_p, self->stride_, self->sub_.stride_)', 'LEMMA_DISTL(%s, self->stride_, self->sub_.stride_)' % sq,
                          'LEMMA_COMM(self->stride_, %s)' % sq, 'LEMMA_COMM(self->sub_.stride_, %s)' % sq, 'LEMMA_COMM(self->stride_, g_n0)', 'LEMMA_COMM(self->sub_.stride_, g_n1)',
                          'LEMMA_MULDIV(self->stride_, g_n0)', 'LEMMA_MULDIV(self->sub_.stride_, g_n1)', 'LEMMA_COMM(g_p, self->stride_)', 'LEMMA_COMM(g_p, self->sub_.stride_)', 'LEMMA_COMM(g_p, self->stride_ + self->sub_.stride_)',
                          'LEMMA_MUL0(self->stride_)', 'LEMMA_MUL0(self->sub_.stride_)', 'LEMMA_MUL0(%s)' % sq],
                  ensures=[('the diagonal has min(n0, n1) elements, stride s0 + s1, zero-based; the remaining dimensions are those of self', 'ret->stride_ == self->stride_ + self->sub_.stride_ && ret->nelems_ == MUL(%s, ret->stride_) && ret->offset_ == 0' % sq + (' && ' + ' && '.join(same_dim('ret', k, 'self', k+1) for k in range(1, D-1)) if D > 2 else '')),
                           ('p-th element of the diagonal is element (p, p) of self', 'IMPLIES(0 <= g_p && g_p < %s, ret->base_ + MUL(g_p, ret->stride_) == self->base_ + MUL(g_p, self->stride_) + MUL(g_p, self->sub_.stride_))' % sq)],
                  covers=['g_n0 > g_n1 && g_p > 0', 'g_n0 < g_n1'], assigns=['*ret'], mode='uf', solvers=('cvc5', 'cadical'), timeout=900)
        # ---------------------------------------------------------------- dropped(n) / taked(n)
        Check('S%d_dropped%s' % (D, suf), props, 'subarray',
              fn_re=CSn(D) + r'::dropped_aux_\(long\) const', params=['ret', 'self', 'n'],
              wrapper=W('multi::index n', 'new(ret) CS<%d>(self->dropped_aux_(n));' % D),
              cxx={'self': SUB(D), 'ret': SUB(D)}, ghosts=ghosts_fn(D) + [(I64, 'g_p')],
              requires=base_req + zreq + ['0 <= n && n <= g_n0', 'INR(g_p)'],
              lemmas=WF_lemmas('self', D, dims=[0]) + zlem + ['LEMMA_DIST(g_f0, g_p, self->stride_)', 'LEMMA_DIST(g_f0 + n, g_p, self->stride_)', 'LEMMA_DIST(g_f0, n, self->stride_)',
                      'LEMMA_COMM(self->stride_, g_n0 - n)', 'LEMMA_DISTSUB(g_n0, n, self->stride_)', 'LEMMA_MUL0(self->stride_)'],
              ensures=[('stride kept, inner dimensions untouched', 'ret->stride_ == self->stride_ && ' + inner_same),
                       ('size is size-n', 'ret->nelems_ == MUL(g_n0 - n, ret->stride_) && REM(ret->offset_, ret->stride_) == 0'),
                       ('zero-based stays zero-based', 'IMPLIES(self->offset_ == 0, ret->offset_ == 0)'),
                       ('p-th element of result is element n+p (by position) of self',
                        'IMPLIES(0 <= g_p && g_p < g_n0 - n, %s == %s)' % (addr0('ret', first_index('ret') + ' + g_p'), addr0('self', 'g_f0 + n + g_p')))],
              covers=['n == g_n0', 'g_n0 == 0', 'n == 0 && g_n0 == 1', 'g_p == g_n0 - n - 1 && g_p > 2'],
              assigns=['*ret'], mode='uf')
        Check('S%d_taked%s' % (D, suf), props, 'subarray',
              fn_re=CSn(D) + r'::taked_aux_\(long\) const', params=['ret', 'self', 'n'],
              wrapper=W('multi::index n', 'new(ret) CS<%d>(self->taked_aux_(n));' % D),
              cxx={'self': SUB(D), 'ret': SUB(D)}, ghosts=ghosts_fn(D),
              requires=base_req + zreq + ['0 <= n && n <= g_n0'],
              lemmas=WF_lemmas('self', D, dims=[0]) + zlem + ['LEMMA_COMM(self->stride_, n)'],
              ensures=[('stride, offset, inner dimensions and first element kept', 'ret->stride_ == self->stride_ && ret->offset_ == self->offset_ && ret->base_ == self->base_ && ' + inner_same),
                       ('size is n', 'ret->nelems_ == MUL(n, ret->stride_)')],
              covers=['n == g_n0', 'n == 0', 'g_n0 == 0'],
              assigns=['*ret'], mode='uf')
    # -------------------------------------------------------------------- strided(s)   (zero-based; s divides the size)
    Check('S%d_strided' % D, ['C01', 'C20'], 'subarray',
          fn_re=CSn(D) + r'::strided_aux_\(long\) const', params=['ret', 'self', 's'],
          wrapper=('void', ('CS<%d>* ret' if D > 1 else 'MS<%d>* ret') % D + ', CS<%d> const* self, multi::index s' % D,
                   'new(ret) %s<%d>(self->strided_aux_(s));' % ('CS' if D > 1 else 'MS', D)),
          cxx={'self': SUB(D), 'ret': SUB(D) if D > 1 else MSUB(1)}, ghosts=ghosts_fn(D) + [(I64, 'g_p')],
          requires=base_req + [' && '.join('g_f%d == 0' % k for k in range(D)), '0 < s && INR(s) && REM(g_n0, s) == 0', 'INR(g_p)'],
          lemmas=WF_lemmas('self', D, dims=[0]) + ['LEMMA_MUL0(self->stride_)', 'LEMMA_COMM(self->stride_, s)', 'LEMMA_DIVEXACT(g_n0, s)',
                  'LEMMA_ASSOC(DIV(g_n0, s), s, self->stride_)', 'LEMMA_ASSOC(g_p, s, self->stride_)'],
          ensures=[('stride multiplied, inner dimensions untouched', 'ret->stride_ == MUL(s, self->stride_) && ret->offset_ == 0 && ' + inner_same),
                   ('size is size/s', 'ret->nelems_ == MUL(DIV(g_n0, s), ret->stride_)'),
                   ('p-th element of result is element p*s of self', 'IMPLIES(0 <= g_p && g_p < DIV(g_n0, s), %s == %s)' % (addr0('ret', 'g_p'), addr0('self', 'MUL(g_p, s)')))],
          covers=['g_n0 == 0', 's == 1', 's == g_n0 && s > 1', 'g_p > 0 && g_p < DIV(g_n0, s)'],
          assigns=['*ret'], mode='uf')
    # -------------------------------------------------------------------- permutations of dimensions (bit-precise)
    perms = {'rotated': list(range(1, D)) + [0], 'unrotated': [D-1] + list(range(D-1)), 'reversed': list(range(D-1, -1, -1))}
    if D >= 2: perms['transposed'] = [1, 0] + list(range(2, D))
    for op, perm in perms.items():
        aux = op + '_aux_' if not (D == 1 and op in ('rotated', 'unrotated')) else op
        Check('S%d_%s' % (D, op), ['C01', 'C19'], 'subarray',
              fn_re=CSn(D) + r'::%s\(\) const( &)?' % aux, params=['ret', 'self'],
              wrapper=('void', 'CS<%d>* ret, CS<%d> const* self' % (D, D), 'new(ret) CS<%d>(self->%s());' % (D, aux)),
              cxx={'self': SUB(D), 'ret': SUB(D)},
              requires=['1'],
              ensures=[('same first element', 'ret->base_ == self->base_')] +
                      [('dimension %d of the result is dimension %d of self' % (k, perm[k]), same_dim('ret', k, 'self', perm[k])) for k in range(D)],
              assigns=['*ret'], mode='exact')
    # -------------------------------------------------------------------- partitioned(n): D -> D+1
    Q = 'DIV(g_n0, n)'
    for zb, suf, props, zreq, zlem in variants(D):
        Check('S%d_partitioned%s' % (D, suf), props, 'subarray',
              fn_re=CSn(D) + r'::partitioned_aux_\(long\) const', params=['ret', 'self', 'n'],
              wrapper=('void', 'MS<%d>* ret, CS<%d> const* self, multi::index n' % (D+1, D), 'new(ret) MS<%d>(self->partitioned_aux_(n));' % (D+1)),
              cxx={'self': SUB(D), 'ret': MSUB(D+1)}, ghosts=ghosts_fn(D) + [(I64, 'g_a'), (I64, 'g_r')],
              requires=base_req + zreq + ['0 < n && INR(n) && REM(g_n0, n) == 0', 'INR(g_a) && INR(g_r)'],
              lemmas=WF_lemmas('self', D, dims=[0]) + zlem + ['LEMMA_DIVEXACT(g_n0, n)', 'LEMMA_SWAP(%s, n, self->stride_)' % Q,
                      'LEMMA_MULREM(MUL(%s, self->stride_), n)' % Q, 'LEMMA_MULDIV(MUL(%s, self->stride_), n)' % Q, 'LEMMA_COMM(n, MUL(%s, self->stride_))' % Q,
                      'LEMMA_DIST(g_f0 + g_r, MUL(g_a, %s), self->stride_)' % Q, 'LEMMA_ASSOC(g_a, %s, self->stride_)' % Q, 'LEMMA_MUL0(n)',
                      'LEMMA_REMRANGE(g_n0, n)', 'LEMMA_MULDIV(g_f0, self->stride_)'],
              ensures=[('leading dimension: n blocks', 'ret->stride_ == MUL(%s, self->stride_) && ret->offset_ == 0 && ret->nelems_ == MUL(n, ret->stride_)' % Q),
                       ('second dimension: size/n elements of the old leading dimension', 'ret->sub_.stride_ == self->stride_ && ret->sub_.offset_ == self->offset_ && ret->sub_.nelems_ == MUL(%s, self->stride_)' % Q),
                       ('inner dimensions untouched, same first element', 'ret->base_ == self->base_ && ' + (' && '.join(same_dim('ret', k+1, 'self', k) for k in range(1, D)) or '1')),
                       ('element (a, r) of the result is element a*(size/n)+r (by position) of self',
                        'IMPLIES(0 <= g_a && g_a < n && 0 <= g_r && g_r < %s, (ret->base_ + (MUL(g_a, ret->stride_) - ret->offset_) + (MUL(g_f0 + g_r, ret->sub_.stride_) - ret->sub_.offset_)) == %s)'
                        % (Q, addr0('self', 'g_f0 + MUL(g_a, %s) + g_r' % Q)))],
              covers=['g_n0 == 0', 'n == 1 && g_n0 > 1', 'n == g_n0 && n > 1', 'g_a > 0 && g_a < n && g_r > 0 && g_r < %s' % Q],
              assigns=['*ret'], mode='uf')
    # -------------------------------------------------------------------- chunked(c): D -> D+1, size/c chunks of c elements (whole closure: size(), chunked_aux_, partitioned_aux_)
    NC = 'DIV(g_n0, c)'; CS_ = 'MUL(c, self->stride_)'
    for zb, suf, props, zreq, zlem in variants(D):
        Check('S%d_chunked%s' % (D, suf), props[:1], 'subarray', fn='w_S%d_chunked%s' % (D, suf), params=['ret', 'self', 'c'],
              wrapper=('void', 'CS<%d>* ret, CS<%d> const* self, multi::index c' % (D+1, D), 'new(ret) CS<%d>(self->chunked(c));' % (D+1)),
              cxx={'self': SUB(D), 'ret': SUB(D+1)}, ghosts=ghosts_fn(D) + [(I64, 'g_a'), (I64, 'g_r')],
              # g_n0 == 0 (no chunks) is included: before the fix 09 of known_findings.json partitioned_aux_(0) asserted / divided by zero there
              requires=base_req + zreq + ['0 < c && INR(c) && REM(g_n0, c) == 0', 'INR(g_a) && INR(g_r)', 'INOFF(%s)' % CS_],
              lemmas=WF_lemmas('self', D, dims=[0]) + zlem + ['LEMMA_DIVEXACT(g_n0, c)', 'LEMMA_REMRANGE(g_n0, c)', 'LEMMA_MUL0(c)', 'LEMMA_DIV0(c)', 'LEMMA_MUL0(%s)' % CS_, 'LEMMA_MUL0(self->stride_)', 'LEMMA_COMM(c, self->stride_)', 'LEMMA_ASSOC(%s, c, self->stride_)' % NC,
                      'LEMMA_COMM(%s, %s)' % (NC, CS_), 'LEMMA_MULDIV(%s, %s)' % (CS_, NC), 'LEMMA_MULREM(%s, %s)' % (CS_, NC), 'LEMMA_ASSOC(g_a, c, self->stride_)',
                      'LEMMA_DIST(g_f0 + g_r, MUL(g_a, c), self->stride_)', 'LEMMA_MULDIV(g_f0, self->stride_)'],
              ensures=[('leading dimension: size/c chunks, stride c*stride, zero-based', 'ret->stride_ == %s && ret->offset_ == 0 && ret->nelems_ == MUL(%s, ret->stride_)' % (CS_, NC)),
                       ('second dimension: c elements of the old leading dimension', 'ret->sub_.stride_ == self->stride_ && ret->sub_.offset_ == self->offset_ && ret->sub_.nelems_ == %s' % CS_),
                       ('inner dimensions untouched, same first element', 'ret->base_ == self->base_ && ' + (' && '.join(same_dim('ret', k+1, 'self', k) for k in range(1, D)) or '1')),
                       ('element (a, r) of the result is element a*c+r (by position) of self',
                        'IMPLIES(0 <= g_a && g_a < %s && 0 <= g_r && g_r < c, (ret->base_ + (MUL(g_a, ret->stride_) - ret->offset_) + (MUL(g_f0 + g_r, ret->sub_.stride_) - ret->sub_.offset_)) == %s)'
                        % (NC, addr0('self', 'g_f0 + MUL(g_a, c) + g_r')))],
              covers=['c == 1 && g_n0 > 1', 'c == g_n0 && c > 1', 'g_a > 0 && g_a < %s && g_r > 0 && g_r < c' % NC, 'g_n0 == 0 && c > 1'],
              assigns=['*ret'], mode='uf', solvers=('cvc5', 'cadical'))
    # -------------------------------------------------------------------- broadcasted(): D -> D+1, stride 0
    Check('S%d_broadcasted' % D, ['C01'], 'subarray',
          fn_re=CSn(D) + r'::broadcasted\(\) const &', params=['ret', 'self'],
          wrapper=('void', 'multi::const_subarray<double, %d, double%s*>* ret, CS<%d> const* self' % (D+1, ' const' if D > 1 else '', D),
                   'new(ret) multi::const_subarray<double, %d, double%s*>(self->broadcasted());' % (D+1, ' const' if D > 1 else '')),
          cxx={'self': SUB(D), 'ret': CSUB(D+1) if D > 1 else SUB(D+1)},
          requires=['1'],
          ensures=[('added leading dimension has stride 0 and offset 0: every index designates the source view', 'ret->stride_ == 0 && ret->offset_ == 0 && ret->base_ == self->base_'),
                   ('the remaining dimensions are those of the source', ' && '.join(same_dim('ret', k+1, 'self', k) for k in range(D)))],
          assigns=['*ret'], mode='exact')

# ------------------------------------------------------------------------ flatted(): D -> D-1 (flattable, zero-based)
for D in (2, 3):
    N1ST1 = 'MUL(g_n1, self->sub_.stride_)'
    A = 'DIV(g_p, g_n1)'; B = 'REM(g_p, g_n1)'
    Check('S%d_flatted' % D, ['C01', 'C20'], 'subarray',
          fn_re=CSn(D) + r'::flatted\(\) const &', params=['ret', 'self'],
          wrapper=('void', 'CS<%d>* ret, CS<%d> const* self' % (D-1, D), 'new(ret) CS<%d>(self->flatted());' % (D-1)),
          cxx={'self': SUB(D), 'ret': SUB(D-1)}, ghosts=ghosts_fn(D) + [(I64, 'g_p')],
          requires=[WF('self', D), 'self->base_ != 0', ' && '.join('g_f%d == 0' % k for k in range(D)), 'g_n1 > 0',
                    'g_n0 <= 1 || self->stride_ == self->sub_.nelems_', 'INR(g_p)'],
          lemmas=WF_lemmas('self', D, dims=[0, 1]) + ['LEMMA_MUL0(self->stride_)', 'LEMMA_MUL0(self->sub_.stride_)',
                  'LEMMA_SWAP(g_n1, self->sub_.stride_, g_n0)', 'LEMMA_COMM(g_n1, g_n0)', 'LEMMA_DIVMOD(g_p, g_n1)', 'LEMMA_REMRANGE(g_p, g_n1)',
                  'LEMMA_DIST(MUL(%s, g_n1), %s, self->sub_.stride_)' % (A, B), 'LEMMA_ASSOC(%s, g_n1, self->sub_.stride_)' % A,
                  'LEMMA_DIVADD(0, g_p, g_n1)', 'LEMMA_MUL0(g_n1)', 'LEMMA_MUL1(g_n1)', 'LEMMA_MUL1(MUL(g_n1, self->sub_.stride_))'],
          ensures=[('leading dimension of the result has size n0*n1 and the stride of the second dimension',
                    'ret->stride_ == self->sub_.stride_ && ret->offset_ == 0 && ret->nelems_ == MUL(MUL(g_n0, g_n1), ret->stride_)'),
                   ('inner dimensions untouched, same first element', 'ret->base_ == self->base_ && ' + (' && '.join(same_dim('ret', k-1, 'self', k) for k in range(2, D)) or '1')),
                   ('element p of the result is element (p / n1, p % n1) of self',
                    'IMPLIES(0 <= g_p && g_p < MUL(g_n0, g_n1), %s == (self->base_ + (MUL(%s, self->stride_) - self->offset_) + (MUL(%s, self->sub_.stride_) - self->sub_.offset_)))' % (addr0('ret', 'g_p'), A, B))],
          covers=['g_n0 == 0', 'g_n0 == 1 && self->stride_ != self->sub_.nelems_', 'g_n0 > 1 && g_p > g_n1 && g_p < MUL(g_n0, g_n1)'],
          assigns=['*ret'], mode='uf')

# ------------------------------------------------------------------------ all access paths to one index tuple reach the same element:
# call syntax with indices A(i, j[, k]) and tuple apply  (chained brackets are S{D}_index composed D times)
for D in (2, 3):
    idx = ['i%d' % k for k in range(D)]
    elem = 'self->base_' + ''.join(' + (MUL(%s, %s) - %s)' % (idx[k], lp('self', k, 'stride_'), lp('self', k, 'offset_')) for k in range(D))
    for zb, suf, props, zreq, zlem in variants(D):
        for nm, call in (('paren_idx', '(*self)(%s)' % ', '.join(idx)), ('apply', 'self->apply(std::make_tuple(%s))' % ', '.join(idx))):
            Check('S%d_%s%s' % (D, nm, suf), props[:1], 'subarray', fn='w_S%d_%s%s' % (D, nm, suf), params=['self'] + idx,
                  wrapper=('double const*', 'CS<%d> const* self, %s' % (D, ', '.join('multi::index ' + x for x in idx)), 'return &%s;' % call),
                  cxx={'self': SUB(D)}, ghosts=ghosts_fn(D),
                  requires=[WF('self', D), 'self->base_ != 0'] + zreq + ['g_f%d <= %s && %s < g_f%d + g_n%d' % (k, idx[k], idx[k], k, k) for k in range(D)],
                  lemmas=WF_lemmas('self', D) + zlem,
                  ensures=[('designates the element chained brackets designate: base + sum_k (i_k*stride_k - offset_k)', 'RET == ' + elem)],
                  covers=['%s > g_f%d' % (idx[D-1], D-1)], assigns=[], mode='uf', solvers=('cvc5', 'cadical'))

# every view-forming operation hands the 0-dimensional leaf layout on unchanged (its nelems_ == 1 is what num_elements() multiplies up)
import re as _re2
for _c in list(CHECKS.values()):
    if _c.group == 'subarray' and 'ret' in _c.cxx and 'self' in _c.cxx and _c.id.startswith('S') and not _c.misuse:
        dr = int(_re2.search(r',(\d+)', _c.cxx['ret']).group(1)); ds = int(_re2.search(r',(\d+)', _c.cxx['self']).group(1))
        _c.ensures.append(('0-dimensional leaf layout handed on unchanged', '%s == %s' % (lp('ret', dr, 'nelems_'), lp('self', ds, 'nelems_'))))
