"""Engine B (C08 / C09 / C10 / C04 / C06): lifecycle of owning arrays  multi::array<E, D, A<E>>  against a ghost heap.

E is a payload-free element type whose special members only call ghost hooks (gh_ctor, gh_copy, gh_move, gh_assign, gh_massign,
gh_dtor); A<T> is an allocator with an identity `id` and configurable propagation traits calling gh_allocate / gh_deallocate.  The hooks
are C stubs (below, trusted ~60 lines) that keep a ghost heap: G_BLOCKS blocks of up to G_ELEMS elements with, per block,
{owned, size, allocator id} and per element {live, value}.  They assert the safety half of C08 locally (construct over a live element,
use/destroy of a dead one, deallocation of a foreign / wrong-size / not-owned block, double release) and may fail (EXC = 1)
non-deterministically at EVERY call, so one run covers every failure injection point (C09).

The checks are BOUNDED: extents are limited so that blocks have <= G_ELEMS elements and all loops are fully unwound with unwinding
assertions (complete for that bound, labelled bounded in the evidence, never counted as unbounded proof).  Pre-states are built by
running the real constructors in the harness; the operation under contract is then run on them.
Contract shape: requires RI(a) for every array involved; ensures  EXC == 0 ==> RI(new) + value relation (C04/C06),
EXC != 0 ==> RI of every array involved + nothing leaked + nothing released twice (C09); allocator identity in RI (C10)."""
from common import *
from vf import Stub

G_BLOCKS, G_ELEMS = 5, 6

HEAP = r'''
#define G_BLOCKS %d
#define G_ELEMS %d
struct gblock { _Bool owned; I64 size; int alloc_id; _Bool live[G_ELEMS]; int val[G_ELEMS]; } G_blk[G_BLOCKS];
char G_mem[G_BLOCKS][G_ELEMS];                /* element storage: sizeof(E) == 1, element i of block k lives at &G_mem[k][i] */
int G_nalloc, G_ndealloc, G_nctor, G_ndtor, G_ncopy, G_nmove, G_nassign, G_next;  _Bool G_may_fail;
int g_va[G_ELEMS], g_vb[G_ELEMS]; void *G_ext_addr; int G_ext_val;   /* one tracked object outside the heap (a fill value) */             /* snapshots of element values taken by the harness before the operation */
_Bool nondet__Bool(void);
#define IN_HEAP(p) (__CPROVER_same_object((p), G_mem) && __CPROVER_POINTER_OFFSET(p) < G_BLOCKS*G_ELEMS)
#define BLK(p) ((I64)__CPROVER_POINTER_OFFSET(p) / G_ELEMS)
#define IDX(p) ((I64)__CPROVER_POINTER_OFFSET(p) %% G_ELEMS)
#define FAIL_MAYBE() do{ if(G_may_fail && nondet__Bool()){ EXC = 1; return; } }while(0)
''' % (G_BLOCKS, G_ELEMS)

def elem_guard(p, must_live, what):
    return ('__CPROVER_assert(IN_HEAP(%s), "%s: address inside a block obtained from the allocator"); __CPROVER_assume(IN_HEAP(%s)); '
            '__CPROVER_assert(G_blk[BLK(%s)].owned && IDX(%s) < G_blk[BLK(%s)].size, "%s: element inside the owned block"); '
            '__CPROVER_assert(G_blk[BLK(%s)].live[IDX(%s)] == %d, "%s"); ' % (p, what, p, p, p, p, what, p, p, 1 if must_live else 0,
              (what + ': object is alive') if must_live else (what + ': no live object is constructed over')))
HOOKS = [
    Stub('gh_allocate', decl=HEAP, ghosts=['G_blk', 'G_nalloc', 'G_next'],
         body='{ if(G_may_fail && nondet__Bool()){ EXC = 1; return (void*)0; } int k_ = G_next; __CPROVER_assume(k_ < G_BLOCKS); G_next++; '
              '__CPROVER_assert(a0 > 0, "allocate: a positive number of elements is requested"); __CPROVER_assert(a0 <= G_ELEMS, "BOUND: block larger than the bound of this check"); __CPROVER_assume(a0 <= G_ELEMS); '
              'G_blk[k_].owned = 1; G_blk[k_].size = a0; G_blk[k_].alloc_id = a1; for(int i_ = 0; i_ < G_ELEMS; i_++) G_blk[k_].live[i_] = 0; G_nalloc++; return (void*)&G_mem[k_][0]; }'),
    Stub('gh_deallocate', ghosts=['G_blk', 'G_ndealloc'],
         body='{ __CPROVER_assert(IN_HEAP(a0) && IDX(a0) == 0, "deallocate: pointer is the start of a block obtained from the allocator"); __CPROVER_assume(IN_HEAP(a0) && IDX(a0) == 0); '
              '__CPROVER_assert(G_blk[BLK(a0)].owned, "deallocate: block is outstanding (no double release)"); '
              '__CPROVER_assert(G_blk[BLK(a0)].size == a1, "deallocate: with the size it was requested with"); '
              '__CPROVER_assert(G_blk[BLK(a0)].alloc_id == a2, "deallocate: through an allocator equal to the one that produced the block"); '
              'for(int i_ = 0; i_ < G_ELEMS; i_++) __CPROVER_assert(!G_blk[BLK(a0)].live[i_], "deallocate: no live element left in the block"); '
              'G_blk[BLK(a0)].owned = 0; G_ndealloc++; return; }'),
    Stub('gh_ctor', ghosts=['G_blk', 'G_nctor'], optional=True,
         body='{ FAIL_MAYBE(); if(!IN_HEAP(a0)) return;   /* object outside the ghost heap (temporary): not tracked */ ' + elem_guard('a0', False, 'construct') + 'G_blk[BLK(a0)].live[IDX(a0)] = 1; G_blk[BLK(a0)].val[IDX(a0)] = 0; G_nctor++; return; }'),
    Stub('gh_copy', ghosts=['G_blk', 'G_nctor', 'G_ncopy', 'G_ext_addr', 'G_ext_val'], optional=True,
         body='{ FAIL_MAYBE(); int v_ = a2; if(IN_HEAP(a1)){ ' + elem_guard('a1', True, 'copy-construct from') + ' v_ = G_blk[BLK(a1)].val[IDX(a1)]; } else if(a1 != 0 && a1 == G_ext_addr) v_ = G_ext_val; if(!IN_HEAP(a0)){ G_ext_addr = a0; G_ext_val = v_; return; } ' + elem_guard('a0', False, 'copy-construct') +
              'G_blk[BLK(a0)].live[IDX(a0)] = 1; G_blk[BLK(a0)].val[IDX(a0)] = v_; G_nctor++; G_ncopy++; return; }'),
    Stub('gh_move', ghosts=['G_blk', 'G_nctor', 'G_nmove', 'G_ext_addr', 'G_ext_val'], optional=True,
         body='{ FAIL_MAYBE(); int v_ = a2; if(IN_HEAP(a1)){ ' + elem_guard('a1', True, 'move-construct from') + ' v_ = G_blk[BLK(a1)].val[IDX(a1)]; } else if(a1 != 0 && a1 == G_ext_addr) v_ = G_ext_val; if(!IN_HEAP(a0)){ G_ext_addr = a0; G_ext_val = v_; return; } ' + elem_guard('a0', False, 'move-construct') +
              'G_blk[BLK(a0)].live[IDX(a0)] = 1; G_blk[BLK(a0)].val[IDX(a0)] = v_; G_nctor++; G_nmove++; return; }'),
    Stub('gh_movenf', ghosts=['G_blk', 'G_nctor', 'G_nmove', 'G_ext_addr', 'G_ext_val'], optional=True,
         body='{ int v_ = a2; if(IN_HEAP(a1)){ ' + elem_guard('a1', True, 'move-construct from') + ' v_ = G_blk[BLK(a1)].val[IDX(a1)]; } else if(a1 != 0 && a1 == G_ext_addr) v_ = G_ext_val; if(!IN_HEAP(a0)){ G_ext_addr = a0; G_ext_val = v_; return; } ' + elem_guard('a0', False, 'move-construct') +
              'G_blk[BLK(a0)].live[IDX(a0)] = 1; G_blk[BLK(a0)].val[IDX(a0)] = v_; G_nctor++; G_nmove++; return; }'),
    Stub('gh_assign', ghosts=['G_blk', 'G_nassign', 'G_ncopy'], optional=True,
         body='{ FAIL_MAYBE(); int v_ = a2; if(IN_HEAP(a1)){ ' + elem_guard('a1', True, 'assign from') + ' v_ = G_blk[BLK(a1)].val[IDX(a1)]; } else if(a1 != 0 && a1 == G_ext_addr) v_ = G_ext_val; if(!IN_HEAP(a0)) return; ' + elem_guard('a0', True, 'assign to') +
              'G_blk[BLK(a0)].val[IDX(a0)] = v_; G_nassign++; G_ncopy++; return; }'),
    Stub('gh_dtor', ghosts=['G_blk', 'G_ndtor'], optional=True,
         body='{ if(!IN_HEAP(a0)) return;   /* temporaries outside the ghost heap (e.g. a fill value) */ ' + elem_guard('a0', True, 'destroy') + 'G_blk[BLK(a0)].live[IDX(a0)] = 0; G_ndtor++; return; }'),
]

PRELUDE = r'''
extern "C" { void gh_ctor(void*); void gh_copy(void*, void const*, int); void gh_move(void*, void*, int); void gh_movenf(void*, void*, int); void gh_assign(void*, void const*, int); void gh_dtor(void*);
             void* gh_allocate(unsigned long n, int id); void gh_deallocate(void*, unsigned long n, int id); }
// payload-free element: the special members only call the ghost hooks (the ghost heap keeps liveness and value per element address)
struct FV { int v; explicit FV(int x) : v{x} {} };   // carrier of a fill value living outside the ghost heap
struct E2 {   // a second element type, convertible to E (for converting assignment / construction)
	E2() { gh_ctor(this); }
	E2(E2 const& o) { gh_copy(this, &o, 0); }
	auto operator=(E2 const& o) -> E2& { gh_assign(this, &o, 0); return *this; }
	~E2() { gh_dtor(this); }
};
struct E {
	E() { gh_ctor(this); }
	E(E2 const& o) { gh_copy(this, &o, 0); }   // NOLINT: converting constructor
	auto operator=(E2 const& o) -> E& { gh_assign(this, &o, 0); return *this; }
	E(FV f) { gh_copy(this, nullptr, f.v); }   // NOLINT: element constructed from a plain value
	E(E const& o) { gh_copy(this, &o, 0); }
	E(E&& o) noexcept(false) { gh_move(this, &o, 0); }
	auto operator=(E const& o) -> E& { gh_assign(this, &o, 0); return *this; }
	auto operator=(E&& o) noexcept(false) -> E& { gh_assign(this, &o, 0); return *this; }
	~E() { gh_dtor(this); }
};
// element with a non-throwing move and a throwing copy (like std::string): move construction cannot fail, copy construction can
struct EN {
	EN() { gh_ctor(this); }
	EN(EN const& o) { gh_copy(this, &o, 0); }
	EN(EN&& o) noexcept { gh_movenf(this, &o, 0); }
	auto operator=(EN const& o) -> EN& { gh_assign(this, &o, 0); return *this; }
	~EN() { gh_dtor(this); }
};
// allocator with an identity and configurable propagation traits
template<class T, bool POCCA = false, bool POCMA = false, bool POCS = false>
struct A {
	using value_type = T; int id;
	using propagate_on_container_copy_assignment = std::integral_constant<bool, POCCA>;
	using propagate_on_container_move_assignment = std::integral_constant<bool, POCMA>;
	using propagate_on_container_swap = std::integral_constant<bool, POCS>;
	using is_always_equal = std::false_type;
	template<class U> struct rebind { using other = A<U, POCCA, POCMA, POCS>; };
	explicit A(int i = 0) : id{i} {}
	template<class U> A(A<U, POCCA, POCMA, POCS> const& o) : id{o.id} {}
	auto allocate(std::size_t n) -> T* { return static_cast<T*>(gh_allocate(n, id)); }
	void deallocate(T* p, std::size_t n) { gh_deallocate(p, n, id); }
	friend auto operator==(A const& a, A const& b) -> bool { return a.id == b.id; }
	friend auto operator!=(A const& a, A const& b) -> bool { return a.id != b.id; }
};
template<multi::dimensionality_type D> using Arr = multi::array<E, D, A<E>>;
template<multi::dimensionality_type D> using ArrP = multi::array<E, D, A<E, true, true, true>>;    // all propagate_on_container_* traits true
template<multi::dimensionality_type D> using ArrS = multi::array<E, D, A<E, false, false, true>>;  // only propagate_on_container_swap
template<multi::dimensionality_type D> using ArrQ = multi::array<E2, D, A<E2>>;
extern "C" { void mkQ1(ArrQ<1>* out, long n0, int id){ new(out) ArrQ<1>(multi::extensions_t<1>{n0}, A<E2>{id}); }
             void mkQ2(ArrQ<2>* out, long n0, long n1, int id){ new(out) ArrQ<2>(multi::extensions_t<2>{n0, n1}, A<E2>{id}); } }
template<multi::dimensionality_type D> using ArrN = multi::array<EN, D, A<EN>>;
extern "C" { void mkN1(ArrN<1>* out, long n0, int id){ new(out) ArrN<1>(multi::extensions_t<1>{n0}, A<EN>{id}); } }
extern "C" {
void mk1(Arr<1>* out, long n0, int id){ new(out) Arr<1>(multi::extensions_t<1>{n0}, A<E>{id}); }
void mk2(Arr<2>* out, long n0, long n1, int id){ new(out) Arr<2>(multi::extensions_t<2>{n0, n1}, A<E>{id}); }
void mkP1(ArrP<1>* out, long n0, int id){ new(out) ArrP<1>(multi::extensions_t<1>{n0}, A<E, true, true, true>{id}); }
void mkP2(ArrP<2>* out, long n0, long n1, int id){ new(out) ArrP<2>(multi::extensions_t<2>{n0, n1}, A<E, true, true, true>{id}); }
void mkS1(ArrS<1>* out, long n0, int id){ new(out) ArrS<1>(multi::extensions_t<1>{n0}, A<E, false, false, true>{id}); }
void mkS2(ArrS<2>* out, long n0, long n1, int id){ new(out) ArrS<2>(multi::extensions_t<2>{n0, n1}, A<E, false, false, true>{id}); }
}
'''
Group('life', ['boost/multi/array.hpp'], profile='O', prelude=PRELUDE, cut=[r'_ZSt.*terminate', r'_ZNSt7__cxx11', r'_ZSt9to_string', r'_ZSt20__throw_length_error'],
      noinline=[r'^_ZNSt7__cxx11', r'^gh_'])

def ARR(D): return r're:boost::multi::array<E,%d,A<E(,false,false,false)?>>' % D
def N(a, D): return '%s->nelems_' % a        # owning arrays have compact row-major layouts: the leading span is the number of elements
def all_live(blk, n, live=1):
    return ' && '.join('IMPLIES(%d < %s, G_blk[%s].live[%d] == %d)' % (i, n, blk, i, live) for i in range(G_ELEMS))
def none_live(blk):
    return ' && '.join('!G_blk[%s].live[%d]' % (blk, i) for i in range(G_ELEMS))
def RI(a, D):
    """representation invariant of an owning array against the ghost heap"""
    n = N(a, D); b = 'BLK(%s->base_)' % a
    return ('(%s >= 0 && (%s == 0 ? 1 : (IN_HEAP(%s->base_) && IDX(%s->base_) == 0 && G_blk[%s].owned && G_blk[%s].size == %s && G_blk[%s].alloc_id == %s->alloc_.id && %s)))'
            % (n, n, a, a, b, b, n, b, a, all_live(b, n)))
def owned_blocks(): return '(' + ' + '.join('(G_blk[%d].owned != 0)' % k for k in range(G_BLOCKS)) + ')'
def total_live(): return '(' + ' + '.join('(G_blk[%d].live[%d] != 0)' % (k, i) for k in range(G_BLOCKS) for i in range(G_ELEMS)) + ')'
def shape(a, D, ns):
    """row-major compact layout with extents ns (zero-based)"""
    cs = []
    for k in range(D):
        inner = ' * '.join(ns[k+1:]) or '1'
        cs.append('%s == ((%s) == 0 ? 1 : (%s)) && %s == 0 && %s == (%s) * (%s)' % (lp(a, k, 'stride_'), inner, inner, lp(a, k, 'offset_'), lp(a, k, 'nelems_'), ns[k], inner))
    return ' && '.join(cs)
INIT = 'G_ext_addr = 0; G_next = 0; G_nalloc = 0; G_ndealloc = 0; G_nctor = 0; G_ndtor = 0; G_ncopy = 0; G_nmove = 0; G_nassign = 0; for(int k_ = 0; k_ < G_BLOCKS; k_++){ G_blk[k_].owned = 0; for(int i_ = 0; i_ < G_ELEMS; i_++) G_blk[k_].live[i_] = 0; } '
def mk(a, D, ns, idv):
    """build a valid array in the harness by running the real constructor (failures disabled)"""
    return 'G_may_fail = 0; mk%d(%s, %s, %s); __CPROVER_assume(!EXC); ' % (D, a, ', '.join(ns), idv)
BND = {1: 'g_%s0 <= 4', 2: 'g_%s0 <= 2 && g_%s1 <= 3'}
def bounds(p, D): return ' && '.join(['0 <= g_%s%d' % (p, k) for k in range(D)] + [BND[D].replace('%s', p)])
COMMON = dict(group='life', mode='exact', objbits=12, timeout=1500, unwind=G_ELEMS + 3, native=False, stubs=HOOKS, solvers=('minisat', 'cadical'),
              bounded='bounded: at most %d elements per block (D=1: n <= 4; D=2: extents <= 2 x 3), at most %d allocations; loops fully unwound with unwinding assertions' % (G_ELEMS, G_BLOCKS))
TIER = lambda D, heavy=False: dict(tier='quick' if (D == 1 or not heavy) else 'thorough')

for D in (1, 2):
    ns_a = ['g_a%d' % k for k in range(D)]; ns_b = ['g_b%d' % k for k in range(D)]
    Ga = [(I64, x) for x in ns_a] + [('int', 'g_ida')]; Gb = [(I64, x) for x in ns_b] + [('int', 'g_idb')]
    prod = lambda ns: ' * '.join(ns)
    # ---------------------------------------------------------------- sizing constructor: array(extensions, allocator)
    Check('B%d_ctor' % D, ['C08', 'C09', 'C10'], params=['out'] + ['n%d' % k for k in range(D)] + ['id'], fn='mk%d' % D, wrapper=None,
          cxx={'out': ARR(D)}, ghosts=[], setup=INIT + 'G_may_fail = 1;',
          requires=[' && '.join(['0 <= n%d' % k for k in range(D)]) + ' && ' + BND[D].replace('g_%s', 'n'), 'EXC == 0'],
          ensures=[('success: extents as requested, storage from the given allocator, every element constructed exactly once (C08, C10)',
                    'IMPLIES(EXC == 0, %s && %s && out->alloc_.id == id && G_nctor == %s && G_nalloc == ((%s) > 0 ? 1 : 0) && G_ndealloc == 0 && G_ndtor == 0)'
                    % (shape('out', D, ['n%d' % k for k in range(D)]), RI('out', D), prod(['n%d' % k for k in range(D)]), prod(['n%d' % k for k in range(D)]))),
                   ('failure: the exception reaches the caller and no live element is left behind (C09)', 'IMPLIES(EXC != 0, %s == 0 && G_nctor == G_ndtor)' % total_live()),
                   ('failure: no block is left outstanding (C09)', 'IMPLIES(EXC != 0, %s == 0 && G_nalloc == G_ndealloc)' % owned_blocks())],
          covers=['EXC == 0 && ' + ' && '.join('n%d > 1' % k for k in range(D)), 'EXC != 0 && G_nctor > 0', 'EXC != 0 && G_nalloc == 0', 'EXC == 0 && n0 == 0'],
          assigns=['*out'], **COMMON)
    # ---------------------------------------------------------------- destructor
    Check('B%d_dtor' % D, ['C08', 'C10'], params=['a'], fn='w_B%d_dtor' % D,
          wrapper=('void', 'Arr<%d>* a' % D, 'a->~Arr<%d>();' % D), extra_roots=['mk%d' % D],
          cxx={'a': ARR(D)}, ghosts=Ga, setup='__CPROVER_assume(%s); ' % bounds('a', D) + INIT + mk('a', D, ns_a, 'g_ida') + 'G_may_fail = 0;',
          requires=[bounds('a', D), RI('a', D)],
          ensures=[('every element destroyed exactly once and the block returned to its allocator with its size; nothing outstanding (C08)',
                    '%s == 0 && %s == 0 && G_ndtor == G_nctor && G_ndealloc == G_nalloc' % (owned_blocks(), total_live()))],
          covers=['g_a0 > 1', 'g_a0 == 0'], assigns=['*a'], **COMMON)

# =====================================================================================================================
def vals_equal(dst, src, n):
    return ' && '.join('IMPLIES(%d < %s, G_blk[BLK(%s->base_)].val[%d] == G_blk[BLK(%s->base_)].val[%d])' % (i, n, dst, i, src, i) for i in range(G_ELEMS))
def vals_are(a, n, old):   # values of a equal the snapshot array old_v[]
    return ' && '.join('IMPLIES(%d < %s, G_blk[BLK(%s->base_)].val[%d] == %s[%d])' % (i, n, a, i, old, i) for i in range(G_ELEMS))
HAVOC = lambda blk: 'for(int i_ = 0; i_ < G_ELEMS; i_++) G_blk[%s].val[i_] = nondet_int32_t(); ' % blk
SNAP = lambda arr, blk: 'for(int i_ = 0; i_ < G_ELEMS; i_++) %s[i_] = G_blk[%s].val[i_]; ' % (arr, blk)
SNAPDECL = ''
def same_shape(a, b, D): return ' && '.join('%s == %s' % (lp(a, k, x), lp(b, k, x)) for k in range(D) for x in ('stride_', 'offset_', 'nelems_'))
def narr(*ns): return '(' + ' + '.join('((%s) > 0)' % n for n in ns) + ')'

for D in (1, 2):
  for P, pre, AR in (('', 'mk', 'Arr'), ('P', 'mkP', 'ArrP'), ('S', 'mkS', 'ArrS')):
    prop = (P == 'P'); pocs = P in ('P', 'S'); pocma = prop; pocca = prop
    ns_a = ['g_a%d' % k for k in range(D)]; ns_b = ['g_b%d' % k for k in range(D)]
    G = [(I64, x) for x in ns_a + ns_b] + [('int', 'g_ida'), ('int', 'g_idb')]
    ARREC = {'': r're:boost::multi::array<E,%d,A<E(,false,false,false)?>>', 'P': r're:boost::multi::array<E,%d,A<E,true,true,true>>', 'S': r're:boost::multi::array<E,%d,A<E,false,false,true>>'}[P] % D
    mkx = lambda a, ns, idv: 'G_may_fail = 0; %s%d(%s, %s, %s); __CPROVER_assume(!EXC); ' % (pre, D, a, ', '.join(ns), idv)
    na, nb = N('a', D), N('b', D)
    two = dict(cxx={'a': ARREC, 'b': ARREC}, ghosts=G, extra_roots=['%s%d' % (pre, D)])
    base2 = '__CPROVER_assume(%s && %s); ' % (bounds('a', D), bounds('b', D)) + INIT + mkx('a', ns_a, 'g_ida') + mkx('b', ns_b, 'g_idb') + HAVOC(0) + HAVOC(1) + SNAP('g_va', 'BLK(a->base_)') + SNAP('g_vb', 'BLK(b->base_)')
    req2 = [bounds('a', D), bounds('b', D), RI('a', D), RI('b', D), 'EXC == 0']
    tag = '%d%s' % (D, P)
    # ---------------------------------------------------------------- copy assignment  a = b
    if True:
        Check('B%s_copy_assign' % tag, ['C04', 'C08', 'C09', 'C10'], params=['a', 'b'], fn='w_B%s_copy_assign' % tag,
              wrapper=('void', '%s<%d>* a, %s<%d> const* b' % (AR, D, AR, D), '*a = *b;'),
              setup=SNAPDECL + base2 + 'G_may_fail = 1;', requires=req2,
              ensures=[('success: a has the extents and element values of b, b is unchanged, storage not shared (C04)',
                        'IMPLIES(EXC == 0, %s && %s && %s && %s && (%s == 0 || a->base_ != b->base_))' % (same_shape('a', 'b', D), RI('b', D), vals_are('a', nb, 'g_vb'), vals_are('b', nb, 'g_vb'), nb)),
                       ('success: a is valid: its block can be released by its own allocator (C10)', 'IMPLIES(EXC == 0, %s)' % RI('a', D)),
                       ('success: the allocator of a is replaced iff propagate_on_container_copy_assignment (C10)', 'IMPLIES(EXC == 0, a->alloc_.id == %s && b->alloc_.id == g_idb)' % ('g_idb' if prop else 'g_ida')),
                       ('success: nothing leaked, nothing released twice: exactly the blocks of a and b are outstanding (C08)', 'IMPLIES(EXC == 0, %s == %s && %s == %s + %s)' % (owned_blocks(), narr(na, nb), total_live(), na, nb)),
                       ('same extents: no allocation, elements assigned in place (C09: operations that need no new storage do not allocate)', 'IMPLIES(EXC == 0 && %s, G_nalloc == %s)' % (' && '.join('g_a%d == g_b%d' % (k, k) for k in range(D)), narr(' * '.join(ns_a), ' * '.join(ns_b)))),
                       ('failure: b is untouched and still valid', 'IMPLIES(EXC != 0, %s && %s)' % (RI('b', D), vals_are('b', nb, 'g_vb'))),
                       ('failure: a is still a valid array (destructible, assignable, extents consistent with its live elements) (C09)', 'IMPLIES(EXC != 0, %s)' % RI('a', D)),
                       ('failure: nothing leaked: exactly the blocks of the (valid) arrays are outstanding (C09)', 'IMPLIES(EXC != 0 && %s, %s == %s && %s == %s + %s)' % (RI('a', D), owned_blocks(), narr(na, nb), total_live(), na, nb))],
              covers=['EXC == 0 && g_a0 != g_b0 && g_a0 > 0 && g_b0 > 1', 'EXC == 0 && ' + ' && '.join('g_a%d == g_b%d' % (k, k) for k in range(D)) + ' && g_a0 > 1', 'EXC != 0'],
              assigns=['*a'], **two, **COMMON, **TIER(D, True))
        if P == 'S': del CHECKS['B%s_copy_assign' % tag]      # the swap-only variant is instantiated for swap / move assignment only
        if P == '':
            ARQ = r're:boost::multi::array<E2,%d,A<E2(,false,false,false)?>>' % D
            baseQ = '__CPROVER_assume(%s && %s); ' % (bounds('a', D), bounds('b', D)) + INIT + mkx('a', ns_a, 'g_ida') + 'G_may_fail = 0; mkQ%d(b, %s, g_idb); __CPROVER_assume(!EXC); ' % (D, ', '.join(ns_b)) + HAVOC(0) + HAVOC(1) + SNAP('g_va', 'BLK(a->base_)') + SNAP('g_vb', 'BLK(b->base_)')
            Check('B%s_conv_assign' % tag, ['C04', 'C08', 'C09', 'C10'], params=['a', 'b'], fn='w_B%s_conv_assign' % tag,
                  wrapper=('void', 'Arr<%d>* a, ArrQ<%d> const* b' % (D, D), '*a = *b;'),
                  cxx={'a': ARREC, 'b': ARQ}, ghosts=G, extra_roots=['mk%d' % D, 'mkQ%d' % D],
                  setup=SNAPDECL + baseQ + 'G_may_fail = 1;', requires=req2,
                  ensures=[('success: a has the extents of b and, element for element, the converted values of b; b is unchanged; storage not shared (C04)',
                            'IMPLIES(EXC == 0, %s && %s && %s && %s && (%s == 0 || (void*)a->base_ != (void*)b->base_))' % (same_shape('a', 'b', D), RI('b', D), vals_are('a', nb, 'g_vb'), vals_are('b', nb, 'g_vb'), nb)),
                           ('success: a is valid and keeps its own allocator (C10)', 'IMPLIES(EXC == 0, %s && a->alloc_.id == g_ida)' % RI('a', D)),
                           ('success: nothing leaked, nothing released twice (C08)', 'IMPLIES(EXC == 0, %s == %s && %s == %s + %s)' % (owned_blocks(), narr(na, nb), total_live(), na, nb)),
                           ('failure: b is untouched and still valid', 'IMPLIES(EXC != 0, %s && %s)' % (RI('b', D), vals_are('b', nb, 'g_vb'))),
                           ('failure: a is still a valid array (destructible, assignable, extents consistent with its live elements) (C09)', 'IMPLIES(EXC != 0, %s)' % RI('a', D)),
                           ('failure: no element leaked (C09)', 'IMPLIES(EXC != 0 && %s, %s == %s + %s)' % (RI('a', D), total_live(), na, nb)),
                           ('failure: no block leaked (C09)', 'IMPLIES(EXC != 0 && %s, %s == %s)' % (RI('a', D), owned_blocks(), narr(na, nb)))],
                  covers=['EXC == 0 && g_a0 != g_b0 && g_a0 > 0 && g_b0 > 1', 'EXC == 0 && g_a0 == 0 && g_b0 > 1', 'EXC != 0 && g_a0 == 0 && g_b0 > 1'],
                  assigns=['*a'], **COMMON, **TIER(D, True))
        # ------------------------------------------------------------ move assignment  a = std::move(b)
        Check('B%s_move_assign' % tag, ['C04', 'C08', 'C09', 'C10'], params=['a', 'b'], fn='w_B%s_move_assign' % tag,
              wrapper=('void', '%s<%d>* a, %s<%d>* b' % (AR, D, AR, D), '*a = std::move(*b);'),
              setup=SNAPDECL + base2 + 'G_may_fail = 1;', requires=req2 + ['a != b'],
              ensures=[('move assignment does not throw', 'EXC == 0'),
                       ('the elements of b are transferred to a without copying, b is left empty (C04)', '%s == 0 && %s && G_ncopy == 0 && %s' % (nb, vals_are('a', na, 'g_vb'), shape('a', D, ns_b))),
                       ('b is left valid (assignable, destructible)', RI('b', D)),
                       ('a is valid: it holds a live block of the right size that its own allocator can release (C10: a block is never handed to an unequal allocator)', RI('a', D)),
                       ('no allocation when the allocators are equal or propagate (C09) and no leak (C08)', 'IMPLIES(%s, G_nalloc == %s) && %s == %s && %s == %s' % ('1' if prop else 'g_ida == g_idb', narr(' * '.join(ns_a), ' * '.join(ns_b)), owned_blocks(), narr(na), total_live(), na)),
                       ('the allocator of a is replaced iff propagate_on_container_move_assignment (C10)', 'a->alloc_.id == %s' % ('g_idb' if prop else 'g_ida'))],
              covers=['g_a0 > 0 && g_b0 > 1 && g_ida != g_idb', 'g_b0 == 0 && g_a0 > 0'],
              assigns=['*a', '*b'], **two, **COMMON)
        # ------------------------------------------------------------ swap
        Check('B%s_swap' % tag, ['C04', 'C08', 'C09', 'C10'], params=['a', 'b'], fn='w_B%s_swap' % tag,
              wrapper=('void', '%s<%d>* a, %s<%d>* b' % (AR, D, AR, D), 'a->swap(*b);'),
              setup=SNAPDECL + base2 + 'G_may_fail = 1;', requires=req2 + ['a != b'] + ([] if pocs else ['g_ida == g_idb   /* swapping arrays whose allocators are unequal and do not propagate on swap is outside the precondition (as for standard containers) */']),
              ensures=[('values exchanged: each array has the extents and elements the other had (C04)', 'EXC == 0 && %s && %s && %s && %s && %s && %s' % (shape('a', D, ns_b), shape('b', D, ns_a), RI('a', D), RI('b', D), vals_are('a', na, 'g_vb'), vals_are('b', nb, 'g_va'))),
                       ('no element copied, no allocation, nothing released (C09)', 'G_ncopy == 0 && G_nmove == 0 && G_nalloc == %s && G_ndealloc == 0' % narr(' * '.join(ns_a), ' * '.join(ns_b))),
                       ('the allocators are exchanged iff propagate_on_container_swap (C10)', 'a->alloc_.id == %s && b->alloc_.id == %s' % (('g_idb', 'g_ida') if pocs else ('g_ida', 'g_idb')))],
              covers=['g_a0 > 0 && g_b0 > 1' + (' && g_ida != g_idb' if pocs else '')],
              assigns=['*a', '*b'], **two, **COMMON)
    if P != '': continue
    one = dict(cxx={'a': ARREC}, ghosts=[(I64, x) for x in ns_a] + [('int', 'g_ida')], extra_roots=['%s%d' % (pre, D)])
    base1 = '__CPROVER_assume(%s); ' % bounds('a', D) + INIT + mkx('a', ns_a, 'g_ida') + HAVOC(0) + SNAP('g_va', 'BLK(a->base_)')
    req1 = [bounds('a', D), RI('a', D), 'EXC == 0']
    # ---------------------------------------------------------------- copy construction
    Check('B%s_copy_ctor' % tag, ['C04', 'C08', 'C09', 'C10'], params=['out', 'a'], fn='w_B%s_copy_ctor' % tag,
          wrapper=('void', '%s<%d>* out, %s<%d> const* a' % (AR, D, AR, D), 'new(out) %s<%d>(*a);' % (AR, D)),
          cxx={'a': ARREC, 'out': ARREC}, ghosts=one['ghosts'], extra_roots=one['extra_roots'],
          setup=SNAPDECL + base1 + 'G_may_fail = 1;', requires=req1,
          ensures=[('success: an independent array with the extents and elements of the source (C04)',
                    'IMPLIES(EXC == 0, %s && %s && %s && %s && %s && (%s == 0 || out->base_ != a->base_))' % (same_shape('out', 'a', D), RI('out', D), RI('a', D), vals_are('out', na, 'g_va'), vals_are('a', na, 'g_va'), na)),
                   ('success: allocator obtained through select_on_container_copy_construction (here: a copy of the source allocator) (C10)', 'IMPLIES(EXC == 0, out->alloc_.id == g_ida)'),
                   ('failure: the source is untouched', 'IMPLIES(EXC != 0, %s && %s)' % (RI('a', D), vals_are('a', na, 'g_va'))),
                   ('failure: a failed constructor leaves no element behind: only the elements of the source are alive (C09)', 'IMPLIES(EXC != 0, %s == %s)' % (total_live(), na)),
                   ('failure: a failed constructor leaves no block behind: only the source block is outstanding (C09)', 'IMPLIES(EXC != 0, %s == %s)' % (owned_blocks(), narr(na)))],
          covers=['EXC == 0 && g_a0 > 1', 'EXC != 0 && G_ncopy > 0'], assigns=['*out'], **COMMON, **TIER(D, True))
    # ---------------------------------------------------------------- construction from an iterator range (1-D): array(first, last, alloc)
    if D == 1:
        Check('B1_ctor_range', ['C04', 'C08', 'C09', 'C10'], params=['out', 'a', 'id'], fn='w_B1_ctor_range',
              wrapper=('void', 'Arr<1>* out, Arr<1> const* a, int id', 'new(out) Arr<1>(a->begin(), a->end(), A<E>{id});'),
              cxx={'a': ARREC, 'out': ARREC}, ghosts=one['ghosts'], extra_roots=one['extra_roots'],
              setup=SNAPDECL + base1 + 'G_may_fail = 1;', requires=req1,
              ensures=[('success: an independent array with the size and elements of the range, storage from the given allocator (C04, C10)',
                        'IMPLIES(EXC == 0, %s && %s && %s && %s && %s && (%s == 0 || out->base_ != a->base_) && out->alloc_.id == id)' % (same_shape('out', 'a', D), RI('out', D), RI('a', D), vals_are('out', na, 'g_va'), vals_are('a', na, 'g_va'), na)),
                       ('failure: the source is untouched', 'IMPLIES(EXC != 0, %s && %s)' % (RI('a', D), vals_are('a', na, 'g_va'))),
                       ('failure: a failed constructor leaves no element behind: only the elements of the source are alive (C09)', 'IMPLIES(EXC != 0, %s == %s)' % (total_live(), na)),
                       ('failure: a failed constructor leaves no block behind: only the source block is outstanding (C09)', 'IMPLIES(EXC != 0, %s == %s)' % (owned_blocks(), narr(na)))],
              covers=['EXC == 0 && g_a0 > 1', 'EXC != 0 && G_ncopy > 0'], assigns=['*out'], **COMMON)
        ARN = r're:boost::multi::array<EN,1,A<EN(,false,false,false)?>>'
        baseN = '__CPROVER_assume(%s); ' % bounds('a', D) + INIT + 'G_may_fail = 0; mkN1(a, g_a0, g_ida); __CPROVER_assume(!EXC); ' + HAVOC(0) + SNAP('g_va', 'BLK(a->base_)')
        Check('B1N_ctor_range', ['C04', 'C08', 'C09', 'C10'], params=['out', 'a', 'id'], fn='w_B1N_ctor_range',
              wrapper=('void', 'ArrN<1>* out, ArrN<1> const* a, int id', 'new(out) ArrN<1>(a->begin(), a->end(), A<EN>{id});'),
              cxx={'a': ARN, 'out': ARN}, ghosts=one['ghosts'], extra_roots=['mkN1'],
              setup=SNAPDECL + baseN + 'G_may_fail = 1;', requires=req1,
              ensures=[('success: an independent array with the size and elements of the range (element type with noexcept move, throwing copy) (C04, C10)',
                        'IMPLIES(EXC == 0, %s && %s && %s && %s && %s && (%s == 0 || out->base_ != a->base_) && out->alloc_.id == id)' % (same_shape('out', 'a', D), RI('out', D), RI('a', D), vals_are('out', na, 'g_va'), vals_are('a', na, 'g_va'), na)),
                       ('failure: the source is untouched', 'IMPLIES(EXC != 0, %s && %s)' % (RI('a', D), vals_are('a', na, 'g_va'))),
                       ('failure: a failed constructor leaves no element behind: only the elements of the source are alive (C09)', 'IMPLIES(EXC != 0, %s == %s)' % (total_live(), na)),
                       ('failure: a failed constructor leaves no block behind: only the source block is outstanding (C09)', 'IMPLIES(EXC != 0, %s == %s)' % (owned_blocks(), narr(na)))],
              covers=['EXC == 0 && g_a0 > 1', 'EXC != 0 && G_ncopy > 0'], assigns=['*out'], **COMMON)
    # ---------------------------------------------------------------- move construction
    Check('B%s_move_ctor' % tag, ['C04', 'C08', 'C09', 'C10'], params=['out', 'a'], fn='w_B%s_move_ctor' % tag,
          wrapper=('void', '%s<%d>* out, %s<%d>* a' % (AR, D, AR, D), 'new(out) %s<%d>(std::move(*a));' % (AR, D)),
          cxx={'a': ARREC, 'out': ARREC}, ghosts=one['ghosts'], extra_roots=one['extra_roots'],
          setup=SNAPDECL + base1 + 'G_may_fail = 1;', requires=req1,
          ensures=[('the value is transferred without copying elements; the source is left empty yet valid (C04)',
                    'EXC == 0 && %s && %s && %s && %s == 0 && %s && G_ncopy == 0 && G_nmove == 0' % (shape('out', D, ns_a), RI('out', D), RI('a', D), na, vals_are('out', N('out', D), 'g_va'))),
                   ('no allocation, no leak (C08, C09)', 'G_nalloc == %s && G_ndealloc == 0 && %s == %s' % (narr(' * '.join(ns_a)), owned_blocks(), narr(N('out', D)))),
                   ('the new array uses the allocator of the source (C10)', 'out->alloc_.id == g_ida')],
          covers=['g_a0 > 1'], assigns=['*out', '*a'], **COMMON)
    # ---------------------------------------------------------------- clear
    Check('B%s_clear' % tag, ['C06', 'C08', 'C09'], params=['a'], fn='w_B%s_clear' % tag,
          wrapper=('void', '%s<%d>* a' % (AR, D), 'a->clear();'), setup=SNAPDECL + base1 + 'G_may_fail = 1;', requires=req1,
          ensures=[('clear() leaves an empty valid array: every element destroyed once, the block returned (C06, C08)', 'EXC == 0 && %s == 0 && %s && %s == 0 && %s == 0 && G_ndtor == G_nctor && G_ndealloc == G_nalloc' % (na, RI('a', D), owned_blocks(), total_live()))],
          covers=['g_a0 > 1', 'g_a0 == 0'], assigns=['*a'], **one, **COMMON)
    # ---------------------------------------------------------------- reextent(x)  /  reextent(x, value)
    ns_x = ['x%d' % k for k in range(D)]
    def common_kept(old_n, new_n):
        """elements whose index tuple lies in both extents keep their value (row-major positions)"""
        cs = []
        if D == 1:
            for i in range(4): cs.append('IMPLIES(%d < g_a0 && %d < x0, G_blk[BLK(a->base_)].val[%d] == g_va[%d])' % (i, i, i, i))
        else:
            for i in range(2):
                for j in range(3):
                    cs.append('IMPLIES(%d < g_a0 && %d < x0 && %d < g_a1 && %d < x1, G_blk[BLK(a->base_)].val[%d * x1 + %d] == g_va[%d * g_a1 + %d])' % (i, i, j, j, i, j, i, j))
        return ' && '.join(cs)
    def others_are(v):
        cs = []
        if D == 1:
            for i in range(4): cs.append('IMPLIES(%d < x0 && !(%d < g_a0), G_blk[BLK(a->base_)].val[%d] == %s)' % (i, i, i, v))
        else:
            for i in range(2):
                for j in range(3):
                    cs.append('IMPLIES(%d < x0 && %d < x1 && !(%d < g_a0 && %d < g_a1), G_blk[BLK(a->base_)].val[%d * x1 + %d] == %s)' % (i, j, i, j, i, j, v))
        return ' && '.join(cs)
    xb = ' && '.join(['0 <= x%d' % k for k in range(D)]) + ' && ' + BND[D].replace('g_%s', 'x')
    for nm, extra_p, extra_w, call, fillv in (('reextent', [], '', 'a->reextent({%s});', '0'), ('reextent_fill', ['fv'], ', int fv', 'a->reextent({%s}, FV(fv));', 'fv')):
        Check('B%s_%s' % (tag, nm), ['C06', 'C08', 'C09'], params=['a'] + ns_x + extra_p, fn='w_B%s_%s' % (tag, nm),
              wrapper=('void', '%s<%d>* a, %s%s' % (AR, D, ', '.join('long x%d' % k for k in range(D)), extra_w), call % ', '.join(ns_x)),
              setup=SNAPDECL + base1 + 'G_may_fail = 1;', requires=req1 + [xb],
              ensures=[('success: the array has the requested extents and is valid (C06)', 'IMPLIES(EXC == 0, %s && %s)' % (shape('a', D, ns_x), RI('a', D))),
                       ('success: every element in both the old and the new extents keeps its value (C06)', 'IMPLIES(EXC == 0 && %s > 0, %s)' % (na, common_kept(ns_a, ns_x))),
                       ('success: every other element is %s (C06)' % ('the fill value' if extra_p else 'value-initialised'), 'IMPLIES(EXC == 0 && %s > 0, %s)' % (na, others_are(fillv))),
                       ('success: same extents keep the storage (no allocation, same base) (C06)', 'IMPLIES(EXC == 0 && %s, G_nalloc == %s && G_ndealloc == 0)' % (' && '.join('x%d == g_a%d' % (k, k) for k in range(D)), narr(' * '.join(ns_a)))),
                       ('success: nothing leaked (C08)', 'IMPLIES(EXC == 0, %s == %s && %s == %s)' % (owned_blocks(), narr(na), total_live(), na)),
                       ('failure: the array is still valid (C09)', 'IMPLIES(EXC != 0, %s)' % RI('a', D)),
                       ('failure: nothing leaked (C09)', 'IMPLIES(EXC != 0 && %s, %s == %s && %s == %s)' % (RI('a', D), owned_blocks(), narr(na), total_live(), na))],
              covers=['EXC == 0 && x0 > g_a0 && g_a0 > 0', 'EXC == 0 && x0 < g_a0 && x0 > 0', 'EXC != 0'],
              assigns=['*a'], **one, **COMMON, **TIER(D, True))
