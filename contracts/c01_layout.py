from common import *

Group('layout', ['boost/multi/array.hpp'], prelude='''
template<multi::dimensionality_type D> using L = multi::layout_t<D>;
''')

for D in (1, 2, 3):
    perm_rot = list(range(1, D)) + [0]           # result dim k = old dim perm[k]
    Check('L%d_rotate' % D, ['C01', 'C19'], 'layout',
          fn='boost::multi::layout_t<%dl, long>::rotate()' % D, params=['self'],
          wrapper=('void', 'L<%d>* self' % D, 'self->rotate();'),
          cxx={'self': LAY(D)},
          requires=['1'],
          ensures=[('dim %d of result is old dim %d' % (k, perm_rot[k]),
                    ' && '.join('%s == OLD(%s)' % (lp('self', k, x), lp('self', perm_rot[k], x)) for x in ('stride_', 'offset_', 'nelems_')))
                   for k in range(D)] + [('returns *this', 'RET == self')],
          assigns=['*self'], mode='exact')

# ---------------------------------------------------------------------------------------------------------------------
# shape queries of layout_t<D>: size, extension, num_elements, is_empty, strides, sizes  (C01: "agree with that shape")
def Ln(D): return 'boost::multi::layout_t<%dl, long>' % D
def TUP(D): return 'boost::multi::detail::tuple<%s>' % ','.join(['long']*D)

for D in (1, 2, 3):
    for zb in (True, False):
        suf = '' if zb else '_b'; props = ['C01', 'C20'] if zb else ['C19', 'C20']
        zreq = [' && '.join('g_f%d == 0' % k for k in range(D))] if zb else []
        zlem = ['LEMMA_MUL0(%s)' % lp('self', k, 'stride_') for k in range(D)] if zb else []
        Check('L%d_size%s' % (D, suf), props, 'layout', fn=Ln(D) + '::size() const', params=['self'],
              wrapper=('multi::size_t', 'L<%d> const* self' % D, 'return self->size();'),
              cxx={'self': LAY(D)}, ghosts=ghosts_fn(D), requires=[WF('self', D)] + zreq, lemmas=WF_lemmas('self', D, dims=[0]) + zlem,
              ensures=[('size() is the extent of the leading dimension', 'RET == g_n0')], assigns=[], mode='uf')
        Check('L%d_extension%s' % (D, suf), props, 'layout', fn=Ln(D) + '::extension() const', params=['self'],
              wrapper=('multi::index_extension', 'L<%d> const* self' % D, 'return self->extension();'),
              cxx={'self': LAY(D), 'RET': 'boost::multi::extension_t<long,long>'}, ghosts=ghosts_fn(D),
              requires=[WF('self', D)] + zreq, lemmas=WF_lemmas('self', D, dims=[0]) + zlem,
              ensures=[('extension() is [f0, f0+n0) (any empty range when n0 == 0)',
                        'g_n0 == 0 ? RET.first_ == RET.last_ : (RET.first_ == g_f0 && RET.last_ == g_f0 + g_n0)')], assigns=[], mode='uf')
        Check('L%d_is_empty%s' % (D, suf), props, 'layout', fn=Ln(D) + '::is_empty() const', params=['self'],
              wrapper=('bool', 'L<%d> const* self' % D, 'return self->is_empty();'),
              cxx={'self': LAY(D)}, ghosts=ghosts_fn(D), requires=[WF('self', D)] + zreq, lemmas=WF_lemmas('self', D, dims=[0]) + zlem,
              ensures=[('is_empty() iff size() == 0', 'RET == (g_n0 == 0)')], assigns=[], mode='uf')
    prod = 'g_n%d' % (D-1)
    for k in range(D-2, -1, -1): prod = 'MUL(g_n%d, %s)' % (k, prod)
    Check('L%d_num_elements' % D, ['C01', 'C19'], 'layout', fn=Ln(D) + '::num_elements() const', params=['self'],
          wrapper=('multi::size_t', 'L<%d> const* self' % D, 'return self->num_elements();'),
          cxx={'self': LAY(D)}, ghosts=ghosts_fn(D), requires=[WF('self', D), lp('self', D, 'nelems_') + ' == 1'],
          lemmas=WF_lemmas('self', D) + ['LEMMA_MUL1(g_n%d)' % (D-1)],
          ensures=[('num_elements() is the product of the extents', 'RET == %s' % prod)], assigns=[], mode='uf')
    # strides(): tuple (stride_0, ..., stride_{D-1}); bit-precise
    if D <= 2:
        Check('L%d_strides' % D, ['C01', 'C19'], 'layout', fn=Ln(D) + '::strides() const', params=['self'],
              wrapper=('multi::layout_t<%d>::strides_type' % D, 'L<%d> const* self' % D, 'return self->strides();'),
              cxx={'self': LAY(D), 'RET': TUP(D)}, requires=['1'],
              ensures=[('strides() lists the stride of every dimension in order',
                        ' && '.join(('RET.head_#%d == %s' % (k, lp('self', k, 'stride_'))) if D > 1 else 'RET == self->stride_' for k in range(D)))],
              assigns=[], mode='exact')
    else:
        Check('L%d_strides' % D, ['C01', 'C19'], 'layout', fn=Ln(D) + '::strides() const', params=['ret', 'self'],
              wrapper=('void', 'multi::layout_t<%d>::strides_type* ret, L<%d> const* self' % (D, D), 'new(ret) multi::layout_t<%d>::strides_type(self->strides());' % D),
              cxx={'self': LAY(D), 'ret': TUP(D)}, requires=['1'],
              ensures=[('strides() lists the stride of every dimension in order', ' && '.join('ret->head_#%d == %s' % (k, lp('self', k, 'stride_')) for k in range(D)))],
              assigns=['*ret'], mode='exact')

# sizes(): tuple (n_0, ..., n_{D-1}) of a well-formed layout with any index bases (C01: "size, sizes, extensions ... agree with that shape")
for D in (1, 2, 3):
    common_ = dict(cxx={'self': LAY(D)}, ghosts=ghosts_fn(D), requires=[WF('self', D)], lemmas=WF_lemmas('self', D), mode='uf')
    if D <= 2:
        Check('L%d_sizes' % D, ['C01', 'C19'], 'layout', fn=Ln(D) + '::sizes() const', params=['self'],
              wrapper=('multi::layout_t<%d>::sizes_type' % D, 'L<%d> const* self' % D, 'return self->sizes();'),
              ensures=[('sizes() lists the extent of every dimension in order',
                        ' && '.join(('RET.head_#%d == g_n%d' % (k, k)) if D > 1 else 'RET == g_n0' for k in range(D)))],
              assigns=[], **dict(common_, cxx={'self': LAY(D), 'RET': TUP(D)}))
    else:
        Check('L%d_sizes' % D, ['C01', 'C19'], 'layout', fn=Ln(D) + '::sizes() const', params=['ret', 'self'],
              wrapper=('void', 'multi::layout_t<%d>::sizes_type* ret, L<%d> const* self' % (D, D), 'new(ret) multi::layout_t<%d>::sizes_type(self->sizes());' % D),
              ensures=[('sizes() lists the extent of every dimension in order', ' && '.join('ret->head_#%d == g_n%d' % (k, k) for k in range(D)))],
              assigns=['*ret'], **dict(common_, cxx={'self': LAY(D), 'ret': TUP(D)}))
