from common import *

Group('layout', ['boost/multi/array.hpp'], prelude='''
template<multi::dimensionality_type D> using L = multi::layout_t<D>;
''')

for D in (1, 2, 3):
    perm_rot = list(range(1, D)) + [0]           # result dim k = old dim perm[k]
    Check('L%d_rotate' % D, ['C01', 'C19'], 'layout',
          fn='boost::multi::layout_t<%dl, long>::rotate()' % D, params=['self'],
          wrapper=('void', 'L<%d>* self' % D, 'self->rotate();'),
          cxx={'self': LAY(D)},
          requires=['1'],
          ensures=[('dim %d of result is old dim %d' % (k, perm_rot[k]),
                    ' && '.join('%s == OLD(%s)' % (lp('self', k, x), lp('self', perm_rot[k], x)) for x in ('stride_', 'offset_', 'nelems_')))
                   for k in range(D)] + [('returns *this', 'RET == self')],
          assigns=['*self'], mode='exact')
