"""C17: serialization of owning arrays and views against a GHOST ARCHIVE.

Boost.Serialization / Cereal archives are external; what the library promises is WHAT it hands to the archive and in which order.  The archive
is replaced by a ghost archive type GA (C++ below, ~15 lines) that forwards every primitive it is given to C hooks (recording stubs):
    ga_long(long*)                 an index (first / last of a dimension): recorded in order; in LOAD mode the hook also overwrites it with the
                                   next value of the ghost "file" g_file[]
    ga_array(double*, n)           a flat block of elements (make_array)
    std::for_each(first, last, f)  (ISO [alg.foreach], assumed) for the element-by-element form used by views: iterators recorded
Class types are serialised through their own serialize() members, which are part of the verified closure (range, extensions_t).
Proved (all extents, index bases):
  SAVE  array: the archive receives, in order, (first,last) of every dimension exactly as extensions() reports them, then ONE flat block
        [data_elements(), num_elements()); nothing of the array changes.
  LOAD  array, any prior state: the extents read from the file become the extents of the array (canonical layout over storage of exactly
        that many elements; storage and layout untouched when they already agree), then the elements are read as ONE flat block into
        exactly the new storage -- so save followed by load reproduces extents and elements (the element payload is the archive's business).
  VIEW  (D-dimensional, any strides): exactly one std::for_each over [elements().begin(), elements().end()) of THAT view (same base, same
        layout in every dimension, positions 0 and num_elements()): canonical order, exactly the viewed elements (C02 says which cells those are).
"""
from common import *
from vf import Stub
import c04_own as own

PRE = r'''
extern "C" { void ga_long(long* p); void ga_array(double* p, unsigned long n); void ga_double(double const* p); }
template<class T> struct GArr { T* p; std::size_t n; };
struct GA {
	auto operator&(long& x) -> GA& { ga_long(&x); return *this; }
	auto operator&(double& x) -> GA& { ga_double(&x); return *this; }
	auto operator&(double const& x) -> GA& { ga_double(&x); return *this; }
	auto operator&(GArr<double> a) -> GA& { ga_array(a.p, a.n); return *this; }
	template<class T, class = decltype(std::declval<T&>().serialize(std::declval<GA&>(), 0U))> auto operator&(T& x) -> GA& { x.serialize(*this, 0U); return *this; }
};
namespace boost { namespace multi {
template<> struct archive_traits<GA, void> {
	template<class T> static auto make_nvp(char const* /*name*/, T&& value) noexcept -> T&& { return std::forward<T>(value); }
	template<class T> static auto make_array(T* first, std::size_t size) noexcept -> GArr<T> { return GArr<T>{first, size}; }
};
}}
template<multi::dimensionality_type D> using AR = multi::array<double, D>;
template<multi::dimensionality_type D> using MS = multi::subarray<double, D, double*>;
'''
def mkgroup(D):
    # one instantiation unit per dimensionality: a change that only compiles for some D must not take the other dimensions down with it
    Group('serial%d' % D, ['boost/multi/array.hpp'], profile='I', prelude=PRE,
          cut=[r'_ZSt.*terminate', r'_ZNSt7__cxx11', r'_ZSt9to_string', r'_ZSt20__throw_length_error', r'_ZSt17__throw_bad_alloc', r'_ZSt28__throw_bad_array_new_length'],
          noinline=[r'^ga_', r'^_ZSt8for_each', r'subarray<double, \dl.*::operator=<double, double\*', r'^_ZSt20uninitialized_fill_n', r'^_ZNSt7__cxx11'])
prod = own.prod; canonical = own.canonical; canonical_ens = own.canonical_ens;  is_canonical = own.is_canonical; ARR = own.ARR
def storage(a, tot):   # an empty array owns nothing; its base pointer is unobservable (clear() leaves it dangling), so it is not constrained
    return '(%s == 0 ? g_news == 0 : (g_news == 1 && g_new_bytes == 8*%s && %s->base_ == (double*)g_block))' % (tot, tot, a)
FILE = 'I64 g_file[8]; I64 g_seen[8]; int g_nlong; _Bool g_load;'
GA_LONG = Stub('ga_long', decl=FILE, ghosts=['g_seen', 'g_nlong'], count='g_long_calls',
               body='{ if(g_nlong < 8){ g_seen[g_nlong] = *a0; if(g_load) *a0 = g_file[g_nlong]; } g_nlong++; return; }')
GA_ARRAY = Stub('ga_array', record=[('g_arr_p', 0, None, 'ptr'), ('g_arr_n', 1, None)], count='g_arr_calls', decl='int g_arr_at;', ghosts=['g_arr_at'], body='g_arr_at = g_nlong;')
GA_DOUBLE = Stub('ga_double', count='g_dbl_calls', optional=True)

for D in (1, 2, 3):
    mkgroup(D); GRP = 'serial%d' % D
    na = ['g_n%d' % k for k in range(D)]; fa = ['g_f%d' % k for k in range(D)]
    nb = ['g_m%d' % k for k in range(D)]; fb = ['g_e%d' % k for k in range(D)]
    Na, Nb = prod(na), prod(nb)
    bounds = lambda ns, fs: ' && '.join('0 <= %s && %s < SMALL && INR(%s)' % (n, n, f) for n, f in zip(ns, fs))
    eff = lambda ns, fs, k: ('(%s == 0 ? 0 : %s)' % (prod(ns[k:]), fs[k]), '(%s == 0 ? 0 : %s + %s)' % (prod(ns[k:]), fs[k], ns[k]))
    # ------------------------------------------------------------------ save
    Check('Z%d_save' % D, ['C17'], GRP, fn='w_Z%d_save' % D, params=['self', 'ar'],
          wrapper=('void', 'AR<%d>* self, GA* ar' % D, 'self->serialize(*ar, 0U);'),
          cxx={'self': ARR(D)}, ghosts=ghosts_fn(D), stubs=[GA_LONG, GA_ARRAY, GA_DOUBLE, own.NEW, own.DEL], mode='uf',
          setup='g_nlong = 0; g_load = 0; g_arr_at = -1;',
          requires=[bounds(na, fa), is_canonical('self', D, na, fa), 'INOFF(%s)' % Na, 'self->base_ != 0 && g_block != 0', 'g_nlong == 0 && g_load == 0'],
          lemmas=own.prod_lemmas(na, fa),
          ensures=[('the archive receives exactly first and last of every dimension, in order, as extensions() reports them',
                    'g_nlong == %d && ' % (2*D) + ' && '.join('g_seen[%d] == %s && g_seen[%d] == %s' % (2*k, eff(na, fa, k)[0], 2*k+1, eff(na, fa, k)[1]) for k in range(D))),
                   ('then exactly one flat block: all num_elements() elements from data_elements()', 'g_arr_calls == 1 && g_arr_at == %d && g_arr_p == self->base_ && g_arr_n == %s && g_dbl_calls == 0' % (2*D, Na)),
                   ('saving changes nothing: same storage, same layout, no allocation', 'self->base_ == OLD(self->base_) && g_news == 0 && g_deletes == 0 && ' + is_canonical('self', D, na, fa))],
          covers=['g_n0 > 1 && g_f0 < 0', '%s == 0' % Na], assigns=['*self'], objbits=12, timeout=1800, tier='quick' if D < 3 else 'thorough', unwind=4, cbmc_flags=['--no-pointer-check'], solvers=('cvc5', 'cadical'))
    # ------------------------------------------------------------------ load over any prior state
    lib_same_ext = ' && '.join('%s == %s && %s == %s' % (eff(na, fa, k)[0], eff(nb, fb, k)[0], eff(na, fa, k)[1], eff(nb, fb, k)[1]) for k in range(D))
    # the file is one written by save (Z*_save): first/last of every dimension as extensions() of the saved array (extents m, bases e) reports them
    file_is = ' && '.join('g_file[%d] == %s && g_file[%d] == %s' % (2*k, eff(nb, fb, k)[0], 2*k+1, eff(nb, fb, k)[1]) for k in range(D))
    Check('Z%d_load' % D, ['C17'], GRP, fn='w_Z%d_load' % D, params=['self', 'ar'],
          wrapper=('void', 'AR<%d>* self, GA* ar' % D, 'self->serialize(*ar, 0U);'),
          cxx={'self': ARR(D)}, ghosts=ghosts_fn(D) + ghosts_fn(D, f='g_e', n='g_m'), stubs=[GA_LONG, GA_ARRAY, GA_DOUBLE, own.NEW, own.DEL], mode='uf',
          setup='g_nlong = 0; g_load = 1; g_arr_at = -1;',
          requires=[bounds(na, fa), bounds(nb, fb), is_canonical('self', D, na, fa), 'INOFF(%s) && INOFF(%s)' % (Na, Nb), 'self->base_ != 0 && g_block != 0', 'g_nlong == 0 && g_load == 1', file_is],
          lemmas=own.prod_lemmas(na, fa) + own.prod_lemmas(nb, fb),
          ensures=canonical_ens('self', D, nb, fb, lambda k: '%s == 0' % prod(nb[k:]), guard='EXC == 0 && !(%s)' % lib_same_ext, what='the loaded array') + [
                   ('exactly first and last of every dimension are read, in order', 'IMPLIES(EXC == 0, g_nlong == %d)' % (2*D)),
                   ('the archived extents are already those of the array: storage and layout are kept', 'IMPLIES(EXC == 0 && %s, self->base_ == OLD(self->base_) && g_news == 0 && g_deletes == 0 && %s)' % (lib_same_ext, is_canonical('self', D, na, fa))),
                   ('otherwise: the old storage is released exactly once (if there was any) and storage for exactly the archived number of elements is obtained',
                    'IMPLIES(EXC == 0 && !(%s), %s && (%s == 0 ? g_deletes == 0 : (g_deletes == 1 && g_deleted == (void*)OLD(self->base_))))' % (lib_same_ext, storage('self', Nb), Na)),
                   ('then exactly one flat block is read: all num_elements() elements into the (new) storage', 'IMPLIES(EXC == 0, g_arr_calls == 1 && g_arr_at == %d && g_arr_p == self->base_ && g_arr_n == %s && g_dbl_calls == 0)' % (2*D, Nb))],
          covers=['EXC == 0 && !(%s) && g_m0 > 1 && g_n0 > 1' % lib_same_ext, 'EXC == 0 && %s && g_n0 > 1' % lib_same_ext, 'EXC == 0 && %s == 0 && %s > 0' % (Na, Nb), 'EXC == 0 && g_e0 != 0 && g_m0 > 0'],
          assigns=['*self'], objbits=12, timeout=3000, unwind=4, cbmc_flags=['--no-pointer-check'], solvers=('cvc5', 'cadical'), tier='quick' if D < 3 else 'thorough')
    # ------------------------------------------------------------------ views: element by element, canonical order
    ns = na
    def total(D_):
        e = 'g_n%d' % (D_-1)
        for k in range(D_-2, -1, -1): e = 'MUL(g_n%d, %s)' % (k, e)
        return e
    def same_rng(g, v):
        cs = ['%s.base_ == %s->base_' % (g, v)]
        for k in range(D): cs += ['%s.l_.%s%s == %s' % (g, 'sub_.'*k, x, lp(v, k, x)) for x in ('stride_', 'offset_', 'nelems_')]
        return ' && '.join(cs)
    vlem = WF_lemmas('self', D) + ['LEMMA_MUL0(%s)' % lp('self', k, 'stride_') for k in range(D)] + ['LEMMA_MUL1(g_n%d)' % (D-1), 'LEMMA_DIV0(g_n%d)' % (D-1)]
    if D >= 2: vlem += ['LEMMA_DIVADD(g_n0, 0, %s)' % (total(D).split(', ', 1)[1][:-1] if D > 2 else 'g_n1'), 'LEMMA_MUL0(g_n1)', 'LEMMA_MUL0(g_n0)']
    EI = 're:boost::multi::elements_iterator_t<double\\*,boost::multi::layout_t<%d>>' % D
    FE = Stub(r'.*std::for_each<boost::multi::elements_iterator_t<double\*, boost::multi::layout_t<%dl, long> >, .*' % D,
              record=[('g_fe_first', 0, EI), ('g_fe_last', 1, EI), ('g_fe_f', 2, None, 'ptr')], ret='g_fe_ret', count='g_fe_calls')
    RFE = Stub(r'.*std::for_each<double( const)?\*, .*', record=[('g_rf_first', 0, None, 'ptr'), ('g_rf_last', 1, None, 'ptr')], ret='g_rf_ret', count='g_rf_calls', optional=True,
               absent='double *g_rf_first; double *g_rf_last;')
    ii = ['g_i%d' % k for k in range(D)]
    lin = ' + '.join('MUL(%s, %s)' % (ii[k], prod(ns[k+1:]) if k < D-1 else '1') for k in range(D))
    cellv = 'self->base_ + (%s)' % ' + '.join('MUL(%s, %s)' % (ii[k], lp('self', k, 'stride_')) for k in range(D))
    in_rng = ' && '.join('0 <= %s && %s < g_n%d' % (ii[k], ii[k], k) for k in range(D))
    Check('Z%d_view' % D, ['C17'], GRP, fn='w_Z%d_view' % D, params=['self', 'ar'],
          wrapper=('void', 'MS<%d>* self, GA* ar' % D, 'self->serialize(*ar, 0U);'),
          cxx={'self': MSUB(D)}, ghosts=ghosts_fn(D) + [(I64, x) for x in ii], stubs=[FE, RFE, GA_LONG, GA_ARRAY, GA_DOUBLE], mode='uf',
          setup='g_nlong = 0; g_load = 0; g_arr_at = -1;',
          requires=[WF('self', D, zero_based=True), '%s == 0 && %s == 1' % (lp('self', D, 'offset_'), lp('self', D, 'nelems_')), 'self->base_ != 0', ' && '.join('INR(%s)' % x for x in ii)] + (['INOFF(%s)' % total(D)] if D > 1 else []),
          lemmas=vlem,
          ensures=[('[delegation] a view is (de)serialised by exactly one std::for_each over its elements() range; no index and no flat block goes to the archive', 'g_fe_calls == 1 && g_rf_calls == 0 && g_nlong == 0 && g_arr_calls == 0'),
                   ('a flat block (make_array) instead of the elements() range is only used when, for every index tuple, the element sits at its canonical linear position in that block, which has exactly num_elements() cells',
                    'IMPLIES(g_arr_calls >= 1 && %s, g_arr_calls == 1 && g_fe_calls == 0 && g_arr_n == %s && g_arr_p + (%s) == %s)' % (in_rng, total(D), lin, cellv)),
                   ('a walk over the raw storage (instead of the elements() range) is only used when, for every index tuple, the element sits at its canonical linear position in the walked block, which has exactly num_elements() cells',
                    'IMPLIES(g_rf_calls >= 1 && %s, g_rf_calls == 1 && g_fe_calls == 0 && g_rf_last == g_rf_first + %s && g_rf_first + (%s) == %s)' % (in_rng, total(D), lin, cellv)),
                   ('the range is [elements().begin(), elements().end()) of this very view: same base, same layout in every dimension, canonical positions 0 and num_elements(); the function object feeds this archive',
                    'IMPLIES(g_fe_calls == 1, g_fe_first.n_ == 0 && g_fe_last.n_ == %s && %s && %s && g_fe_f == (void*)ar)' % (total(D), same_rng('g_fe_first', 'self'), same_rng('g_fe_last', 'self'))),
                   ('the view itself is not rebound or resized', ' && '.join('%s == OLD(%s)' % (lp('self', k, x), lp('self', k, x)) for k in range(D) for x in ('stride_', 'offset_', 'nelems_')) + ' && self->base_ == OLD(self->base_)')],
          covers=['g_n0 > 1' + (' && self->stride_ < self->sub_.stride_' if D > 1 else ''), 'g_n0 == 0'],
          assigns=['*self'], objbits=12, timeout=1200, unwind=4, cbmc_flags=['--no-pointer-check'], solvers=('cvc5', 'cadical'), tier='quick' if D < 3 else 'thorough')
