"""C07: equality / ordering decision logic of views.

operator== / != delegate the element-wise part to std::equal over the two elements() ranges.  std::equal (ISO [alg.equal]) is an
ASSUMED contract: it is cut out of the closure and replaced by a stub that records its three iterator arguments and returns a
non-deterministic verdict g_eq_ret.  Proved here (library side):
  * extents all equal  ==>  std::equal is called exactly once on exactly [other.elements().begin(), other.elements().end()) and
    self.elements().begin() -- canonical positions 0, N, 0 of the right views (C02 says what those positions designate) -- and its
    verdict is returned (negated for !=);
  * some extent differs (non-empty operands)  ==>  false (true for !=) whatever the elements are.
"""
from common import *
from vf import Stub
import re
E = re.escape

Group('compare', ['boost/multi/array.hpp'], prelude='''
template<multi::dimensionality_type D> using CS = multi::const_subarray<double, D, double*>;
''')
def CSn(D): return r'boost::multi::const_subarray<double, %dl, double\*, boost::multi::layout_t<%dl, long> >' % (D, D)
def EIc(D): return 're:boost::multi::elements_iterator_t<(const)?double\\*,boost::multi::layout_t<%d>>' % D

def total(D, n='g_n'):
    e = '%s%d' % (n, D-1)
    for k in range(D-2, -1, -1): e = 'MUL(%s%d, %s)' % (n, k, e)
    return e
def view_ok(v, D, n):
    return ' && '.join([WF(v, D, n=n, zero_based=True), '%s == 0 && %s == 1' % (lp(v, D, 'offset_'), lp(v, D, 'nelems_')), v + '->base_ != 0'] +
                       (['INOFF(%s)' % total(D, n)] if D > 1 else []))
def same_range(g, v, D):
    """iterator ghost g ranges over the elements of view v"""
    cs = ['%s.base_ == %s->base_' % (g, v)]
    for k in range(D): cs += ['%s.l_.%s%s == %s' % (g, 'sub_.'*k, x, lp(v, k, x)) for x in ('stride_', 'offset_', 'nelems_')]
    return ' && '.join(cs)
def lemmas(D):
    out = []
    for v, n in (('self', 'g_n'), ('other', 'g_m')):
        out += WF_lemmas(v, D, n=n)
        out += ['LEMMA_MUL0(%s)' % lp(v, k, 'stride_') for k in range(D)]
        out += ['LEMMA_MUL1(%s%d)' % (n, D-1), 'LEMMA_DIV0(%s%d)' % (n, D-1)]
        if D >= 2: out += ['LEMMA_DIVADD(%s0, 0, %s)' % (n, total(D, n).split(', ', 1)[1][:-1] if D > 2 else n + '1'), 'LEMMA_MUL0(%s1)' % n, 'LEMMA_MUL0(%s0)' % n]
    if D == 2: out += ['LEMMA_CANCEL(g_n1, g_m1, g_n0)', 'LEMMA_COMM(g_n0, g_n1)', 'LEMMA_COMM(g_n0, g_m1)', 'LEMMA_COMM(g_m0, g_m1)']
    return out

for D in (1, 2, 3):
    all_eq = ' && '.join('g_n%d == g_m%d' % (k, k) for k in range(D))
    nonempty = ' && '.join('g_n%d > 0 && g_m%d > 0' % (k, k) for k in range(D))
    G = ghosts_fn(D) + [(I64, 'g_m%d' % k) for k in range(D)]
    st = [Stub(r'bool std::equal<boost::multi::elements_iterator_t<double const\*, boost::multi::layout_t<%dl, long> >, .*' % D, record=[('g_eq_f1', 0, EIc(D)), ('g_eq_l1', 1, EIc(D)), ('g_eq_f2', 2, EIc(D))], ret='g_eq_ret', count='g_eq_calls')]
    called = ('g_eq_calls == 1 && g_eq_f1.n_ == 0 && g_eq_l1.n_ == %s && g_eq_f2.n_ == 0 && %s && %s && %s'
              % (total(D, 'g_m'), same_range('g_eq_f1', 'other', D), same_range('g_eq_l1', 'other', D), same_range('g_eq_f2', 'self', D)))
    for nm, op, pos in (('eq', '==', True), ('ne', '!=', False)):
        Check('Q%d_%s' % (D, nm), ['C07'], 'compare', params=['self', 'other'],
              fn_re=CSn(D) + r'::operator%s\(' % E(op) + CSn(D) + r' const&\) const' if D > 1 else
                    r'boost::multi::operator%s\(' % E(op) + CSn(1) + ' const&, ' + CSn(1) + r' const&\)',
              wrapper=('bool', 'CS<%d> const* self, CS<%d> const* other' % (D, D), 'return *self %s *other;' % op),
              cxx={'self': SUB(D), 'other': SUB(D)}, ghosts=G, stubs=st, mode='uf',
              requires=[view_ok('self', D, 'g_n'), view_ok('other', D, 'g_m')], lemmas=lemmas(D),
              ensures=[('equal extents: decided by std::equal over the two complete element ranges, in canonical order',
                        'IMPLIES(%s, RET == %sg_eq_ret && %s)' % (all_eq, '' if pos else '!', called)),
                       ('different extents (non-empty operands): %s whatever the elements' % ('false' if pos else 'true'),
                        'IMPLIES(!(%s) && %s, RET == %d)' % (all_eq, nonempty, 0 if pos else 1))],
              covers=[all_eq + ' && g_n0 > 1', '!(%s) && %s' % (all_eq, nonempty), 'g_n0 == 0 && g_m0 == 0'] +
                     (['g_n0 == g_m0 && g_n1 != g_m1 && %s == %s && %s' % (total(D, 'g_n'), total(D, 'g_m'), nonempty)] if D == 3 else []),
              assigns=[], native=True, objbits=10 if D == 3 else None, timeout=1500)
