"""C07: equality / ordering decision logic of views.

operator== / != delegate the element-wise part to std::equal over the two elements() ranges.  std::equal (ISO [alg.equal]) is an
ASSUMED contract: it is cut out of the closure and replaced by a stub that records its three iterator arguments and returns a
non-deterministic verdict g_eq_ret.  Proved here (library side):
  * extents all equal  ==>  std::equal is called exactly once on exactly [other.elements().begin(), other.elements().end()) and
    self.elements().begin() -- canonical positions 0, N, 0 of the right views (C02 says what those positions designate) -- and its
    verdict is returned (negated for !=);
  * some extent differs (non-empty operands)  ==>  false (true for !=) whatever the elements are.
"""
from common import *
from vf import Stub
import re
E = re.escape

Group('compare', ['boost/multi/array.hpp'], prelude='''
template<multi::dimensionality_type D> using CS = multi::const_subarray<double, D, double*>;
''')
def CSn(D): return r'boost::multi::const_subarray<double, %dl, double\*, boost::multi::layout_t<%dl, long> >' % (D, D)
def EIc(D): return 're:boost::multi::elements_iterator_t<(const)?double\\*,boost::multi::layout_t<%d>>' % D

def total(D, n='g_n'):
    e = '%s%d' % (n, D-1)
    for k in range(D-2, -1, -1): e = 'MUL(%s%d, %s)' % (n, k, e)
    return e
def view_ok(v, D, n):
    return ' && '.join([WF(v, D, n=n, zero_based=True), '%s == 0 && %s == 1' % (lp(v, D, 'offset_'), lp(v, D, 'nelems_')), v + '->base_ != 0'] +
                       (['INOFF(%s)' % total(D, n)] if D > 1 else []))
def same_range(g, v, D):
    """iterator ghost g ranges over the elements of view v"""
    cs = ['%s.base_ == %s->base_' % (g, v)]
    for k in range(D): cs += ['%s.l_.%s%s == %s' % (g, 'sub_.'*k, x, lp(v, k, x)) for x in ('stride_', 'offset_', 'nelems_')]
    return ' && '.join(cs)
def lemmas(D):
    out = []
    for v, n in (('self', 'g_n'), ('other', 'g_m')):
        out += WF_lemmas(v, D, n=n)
        out += ['LEMMA_MUL0(%s)' % lp(v, k, 'stride_') for k in range(D)]
        out += ['LEMMA_MUL1(%s%d)' % (n, D-1), 'LEMMA_DIV0(%s%d)' % (n, D-1)]
        if D >= 2: out += ['LEMMA_DIVADD(%s0, 0, %s)' % (n, total(D, n).split(', ', 1)[1][:-1] if D > 2 else n + '1'), 'LEMMA_MUL0(%s1)' % n, 'LEMMA_MUL0(%s0)' % n]
    if D == 2: out += ['LEMMA_CANCEL(g_n1, g_m1, g_n0)', 'LEMMA_COMM(g_n0, g_n1)', 'LEMMA_COMM(g_n0, g_m1)', 'LEMMA_COMM(g_m0, g_m1)']
    return out

for D in (1, 2, 3):
    all_eq = ' && '.join('g_n%d == g_m%d' % (k, k) for k in range(D))
    nonempty = ' && '.join('g_n%d > 0 && g_m%d > 0' % (k, k) for k in range(D))
    ii = ['g_i%d' % k for k in range(D)]
    G = ghosts_fn(D) + [(I64, 'g_m%d' % k) for k in range(D)] + [(I64, x) for x in ii] + [('int', 'g_alias')]
    st = [Stub(r'bool std::equal<boost::multi::elements_iterator_t<double const\*, boost::multi::layout_t<%dl, long> >, .*' % D, record=[('g_eq_f1', 0, EIc(D)), ('g_eq_l1', 1, EIc(D)), ('g_eq_f2', 2, EIc(D))], ret='g_eq_ret', count='g_eq_calls'),
          # a comparison of raw storage (not present in the current tree): accepted only where it is the same comparison, see the last postcondition
          Stub(r'bool std::equal<double const\*, double const\*(, std::equal_to<void> )?>\(.*', record=[('g_rq_f1', 0, None, 'ptr'), ('g_rq_l1', 1, None, 'ptr'), ('g_rq_f2', 2, None, 'ptr')], ret='g_rq_ret', count='g_rq_calls', optional=True,
               absent='double const *g_rq_f1; double const *g_rq_l1; double const *g_rq_f2; _Bool g_rq_ret;')]
    def prodn(k):      # product of the extents after dimension k
        ns_ = ['g_n%d' % j for j in range(k+1, D)]
        if not ns_: return '1'
        e = ns_[-1]
        for n_ in reversed(ns_[:-1]): e = 'MUL(%s, %s)' % (n_, e)
        return e
    lin = ' + '.join('MUL(%s, %s)' % (ii[k], prodn(k)) for k in range(D))
    cellv = lambda v: '%s->base_ + (%s)' % (v, ' + '.join('MUL(%s, %s)' % (ii[k], lp(v, k, 'stride_')) for k in range(D)))
    in_rng = ' && '.join('0 <= %s && %s < g_n%d' % (ii[k], ii[k], k) for k in range(D))
    raw_ok = ('a flat comparison of the underlying storage (instead of the elements() ranges) is only used when, for every index tuple, the element of each view sits at its canonical linear position in the compared block, and the block has exactly num_elements() cells',
              'IMPLIES(g_rq_calls >= 1 && %s, g_rq_calls == 1 && g_eq_calls == 0 && g_rq_l1 == g_rq_f1 + %s && g_rq_f1 + (%s) == %s && g_rq_f2 + (%s) == %s)' % (in_rng, total(D, 'g_n'), lin, cellv('other'), lin, cellv('self')))
    called = ('g_eq_f1.n_ == 0 && g_eq_l1.n_ == %s && g_eq_f2.n_ == 0 && %s && %s && %s'
              % (total(D, 'g_m'), same_range('g_eq_f1', 'other', D), same_range('g_eq_l1', 'other', D), same_range('g_eq_f2', 'self', D)))
    for nm, op, pos in (('eq', '==', True), ('ne', '!=', False)):
        Check('Q%d_%s' % (D, nm), ['C07'], 'compare', params=['self', 'other'],
              fn_re=CSn(D) + r'::operator%s\(' % E(op) + CSn(D) + r' const&\) const' if D > 1 else
                    r'boost::multi::operator%s\(' % E(op) + CSn(1) + ' const&, ' + CSn(1) + r' const&\)',
              wrapper=('bool', 'CS<%d> const* self, CS<%d> const* other' % (D, D), 'return *self %s *other;' % op),
              cxx={'self': SUB(D), 'other': SUB(D)}, ghosts=G, stubs=st, mode='uf',
              requires=[view_ok('self', D, 'g_n'), view_ok('other', D, 'g_m'), ' && '.join('INR(%s)' % x for x in ii), '(g_alias != 0) == (self->base_ == other->base_)'], lemmas=lemmas(D),
              setup='if(g_alias) other->base_ = self->base_;   /* the two operands may view the same storage (with the same or different strides) */',
              ensures=[raw_ok, ('equal non-empty extents: no verdict is produced without comparing elements (on a path with no loop and no ISO comparison the verdict cannot depend on the elements)',
                                'IMPLIES(%s && %s && g_n0 > 2, g_eq_calls + g_rq_calls >= 1)' % (all_eq, nonempty)),
                       ('[delegation] equal extents: the element-wise part is delegated to exactly one call of std::equal', 'IMPLIES(%s, g_eq_calls == 1 && g_rq_calls == 0)' % all_eq),
                       ('equal extents: std::equal receives the two complete element ranges (canonical order) and its verdict is returned%s' % ('' if pos else ' negated'),
                        'IMPLIES(%s && g_eq_calls == 1, RET == %sg_eq_ret && %s)' % (all_eq, '' if pos else '!', called)),
                       ('different extents (non-empty operands): %s whatever the elements' % ('false' if pos else 'true'),
                        'IMPLIES(!(%s) && %s, RET == %d)' % (all_eq, nonempty, 0 if pos else 1))],
              covers=[all_eq + ' && g_n0 > 1', '!(%s) && %s' % (all_eq, nonempty), 'g_n0 == 0 && g_m0 == 0'] +
                     (['g_n0 == g_m0 && g_n1 != g_m1 && %s == %s && %s' % (total(D, 'g_n'), total(D, 'g_m'), nonempty)] if D == 3 else []),
              assigns=[], native=True, objbits=10, timeout=1500, cbmc_flags=['--no-pointer-check'], tier='quick' if (D < 3 or nm == 'eq') else 'thorough')

# ---------------------------------------------------------------------------------------------------------------------
# ordering: <, >, <=, >= delegate to std::lexicographical_compare over begin()/end() of the leading dimension (recursively for D>1,
# because the iterators' value type is the sub-view with the same operators).  std::lexicographical_compare is an ASSUMED ISO contract
# (recording stub).  Proved: which ranges are handed over, in which order, and how the verdicts combine (a<=b iff a<b or a==b, a>b iff b<a).
def ITc(D): return 'boost::multi::array_iterator<double,%d,double*,true,false,long>' % D
def ITcn(D): return r'boost::multi::array_iterator<double, %dl, double\*, true, false, long>' % D

def it_is(g, v, D, end):
    """iterator ghost g (array_iterator<..D..>) is begin()/end() of view v"""
    if D == 1:
        P, S = ('%s.ptr_' % g, '%s.stride_' % g) if g == 'g_lx_b2' else ('%s_p' % g, '%s_s' % g)    # x86-64 ABI: three iterators in registers, the fourth in memory
        return '%s == %s->base_%s && %s == %s->stride_' % (P, v, (' + %s->nelems_' % v) if end else '', S, v)
    cs = ['%s.ptr_.base_ == %s->base_%s' % (g, v, (' + %s->nelems_' % v) if end else ''), '%s.stride_ == %s->stride_' % (g, v)]
    for k in range(D-1): cs += ['%s.ptr_.layout_.%s%s == %s' % (g, 'sub_.'*k, x, lp(v, k+1, x)) for x in ('stride_', 'offset_', 'nelems_')]
    return ' && '.join(cs)

for D in (1, 2, 3):
    G = ghosts_fn(D) + [(I64, 'g_m%d' % k) for k in range(D)]
    all_eq = ' && '.join('g_n%d == g_m%d' % (k, k) for k in range(D))
    nonempty = ' && '.join('g_n%d > 0 && g_m%d > 0' % (k, k) for k in range(D))
    lexrec = [('g_lx_a1', 0, ITc(D)), ('g_lx_a2', 1, ITc(D)), ('g_lx_b1', 2, ITc(D)), ('g_lx_b2', 3, ITc(D))] if D > 1 else \
             [('g_lx_a1_p', 0, None), ('g_lx_a1_s', 1, None), ('g_lx_a2_p', 2, None), ('g_lx_a2_s', 3, None), ('g_lx_b1_p', 4, None), ('g_lx_b1_s', 5, None), ('g_lx_b2', 6, ITc(1))]
    lex = Stub(r'bool std::lexicographical_compare<' + ITcn(D) + ', ' + ITcn(D) + r' >\(.*', record=lexrec, ret='g_lex_ret', count='g_lex_calls')
    eq = Stub(r'bool std::equal<boost::multi::elements_iterator_t<double const\*, boost::multi::layout_t<%dl, long> >, .*' % D,
              record=[('g_eq_f1', 0, EIc(D)), ('g_eq_l1', 1, EIc(D)), ('g_eq_f2', 2, EIc(D))], ret='g_eq_ret', count='g_eq_calls')
    def ranges(x, y):   # std::lexicographical_compare(x.begin(), x.end(), y.begin(), y.end())
        return ' && '.join([it_is('g_lx_a1', x, D, False), it_is('g_lx_a2', x, D, True), it_is('g_lx_b1', y, D, False), it_is('g_lx_b2', y, D, True)])
    common = dict(group='compare', params=['self', 'other'], cxx={'self': SUB(D), 'other': SUB(D)}, ghosts=G, mode='uf',
                  requires=[view_ok('self', D, 'g_n'), view_ok('other', D, 'g_m')], lemmas=lemmas(D), assigns=[], objbits=10, timeout=1500, cbmc_flags=['--no-pointer-check'],
                  covers=['g_n0 > 1 && g_m0 > 1 && g_n0 != g_m0', 'g_n0 == 0 && g_m0 > 0'])
    CS1 = CSn(D)
    ops = [('lt', '<', 'self', 'other', False), ('gt', '>', 'other', 'self', False), ('le', '<=', 'self', 'other', True)] + ([('ge', '>=', 'other', 'self', True)] if D == 1 else [])
    for nm, op, x, y, with_eq in ops:
        fn_re = (r'boost::multi::operator%s\(' % E(op) + CS1 + ' const&, ' + CS1 + r' const&\)') if D == 1 else (CS1 + r'::operator%s\(' % E(op) + CS1 + r' const&\) const &')
        ens = [('[delegation] the ordering is delegated to exactly one call of std::lexicographical_compare' + (' (unless equality already decided)' if with_eq else ''),
                ('IMPLIES(!(%s && g_eq_ret), g_lex_calls == 1)' % all_eq) if with_eq else 'g_lex_calls == 1'),
               ('std::lexicographical_compare receives [%s.begin(), %s.end()) and [%s.begin(), %s.end()) in this order' % (x, x, y, y), 'IMPLIES(g_lex_calls == 1, %s)' % ranges(x, y))]
        if with_eq:
            ens += [('a %s b  iff  a == b or the strict comparison holds (equal extents)' % op, 'IMPLIES(%s && g_eq_calls == 1, RET == (g_eq_ret || g_lex_ret))' % all_eq),
                    ('a %s b  is the strict comparison when the extents differ (non-empty operands)' % op, 'IMPLIES(!(%s) && %s, RET == g_lex_ret)' % (all_eq, nonempty))]
        else:
            ens += [('the verdict of the strict lexicographic comparison is returned', 'IMPLIES(g_lex_calls == 1, RET == g_lex_ret)')]
        Check('Q%d_%s' % (D, nm), ['C07'], fn_re=fn_re, wrapper=('bool', 'CS<%d> const* self, CS<%d> const* other' % (D, D), 'return *self %s *other;' % op),
              stubs=[lex] + ([eq] if with_eq else []), ensures=ens, tier='quick' if D < 3 else 'thorough', **common)

# ---------------------------------------------------------------------------------------------------------------------
# value-level ordering, BOUNDED (sizes 0..3, full unwinding): the 1-D operators on real element values against the textbook definition of the
# lexicographic order.  Independent of how the library computes it (std::lexicographical_compare today), so a re-implementation is still decided.
def lex_lt(n, m, a, b, k=0, K=3):
    """a[0..n) <lex b[0..m) as a closed formula"""
    if k == K: return '0'
    return '(%d >= %s ? %d < %s : (%d >= %s ? 0 : (%s%d < %s%d ? 1 : (%s%d < %s%d ? 0 : %s))))' % (k, n, k, m, k, m, a, k, b, k, b, k, a, k, lex_lt(n, m, a, b, k+1, K))
def all_eq_v(n, m): return '(%s == %s && %s)' % (n, m, ' && '.join('(%d >= %s || a%d == b%d)' % (k, n, k, k) for k in range(3)))
for nm, op, spec in (('lt', '<', lex_lt('n', 'm', 'a', 'b')), ('gt', '>', lex_lt('m', 'n', 'b', 'a')),
                     ('le', '<=', '(%s || %s)' % (all_eq_v('n', 'm'), lex_lt('n', 'm', 'a', 'b'))), ('ge', '>=', '(%s || %s)' % (all_eq_v('n', 'm'), lex_lt('m', 'n', 'b', 'a')))):
    for strided in (False, True):
        cid = 'Q1_%s_values%s' % (nm, '_strided' if strided else '')
        Check(cid, ['C07'], 'compare', fn='w_' + cid, params=['n', 'm'] + ['a%d' % k for k in range(3)] + ['b%d' % k for k in range(3)],
              wrapper=('bool', 'long n, long m, double a0, double a1, double a2, double b0, double b1, double b2',
                       ('double A[6] = {a0, -1.0, a1, -2.0, a2, -3.0}; double B[3] = {b0, b1, b2}; multi::array_ref<double, 1> ra(A, {2*n}); multi::array_ref<double, 1> rb(B, {m}); return ra.strided(2) %s rb;' % op) if strided else
                       ('double A[3] = {a0, a1, a2}; double B[3] = {b0, b1, b2}; multi::array_ref<double, 1> ra(A, {n}); multi::array_ref<double, 1> rb(B, {m}); return ra %s rb;' % op)),
              ghosts=[],
              requires=['0 <= n && n <= 3 && 0 <= m && m <= 3', ' && '.join('a%d == a%d && b%d == b%d' % (k, k, k, k) for k in range(3))],
              ensures=[('a %s b is the lexicographic order of the element sequences (sizes 0..3, any values)' % op, 'RET == %s' % spec)],
              covers=['n == 3 && m == 2 && a0 == b0 && a1 < b1', 'n == 2 && m == 3 && a0 == b0 && a1 == b1', 'n == 0'],
              assigns=[], mode='exact', unwind=9, objbits=10, timeout=900, native=True,
              bounded='sizes 0..3 per operand, loops fully unwound (unwinding assertions on)')
