"""C14: LAPACK adaptor -- argument marshalling of potrf(filling, A) for both storage orientations.

dpotrf_ (LAPACK: Cholesky factorisation of the 'U'pper or 'L'ower triangle of a column-major n x n matrix with leading dimension lda,
INFO = k > 0 if the leading minor of order k is not positive definite) is an ASSUMED contract, replaced by a recording stub that also
returns a non-deterministic INFO >= 0.  Proved for every accepted view (row-major with any row stride, column-major with any column stride):
  * one LAPACK call with n = size, a = first element, a BLAS/LAPACK-valid leading dimension;
  * the triangle LAPACK factorises (cells X(p,q), p<=q for 'U', p>=q for 'L', X(p,q) = a + p + q*lda) is exactly the triangle of the VIEW
    the caller selected -- cell a[i][j] of the selected triangle is X(i,j) or X(j,i) consistently;
  * the returned view is the leading k x k block with k = n if INFO == 0, else INFO-1.
The numerical half of the property (the factor reproduces the input) is LAPACK's and is not decided by this technique."""
from common import *
from vf import Stub

Group('lapack', ['boost/multi/array.hpp', 'boost/multi/adaptors/lapack/potrf.hpp'], profile='O', libs=['-llapack', '-lopenblas'], prelude='''
using MS2 = multi::subarray<double, 2, double*>;
''', cut=[r'_ZSt.*terminate'], noinline=[r'^_ZNSt7__cxx11'])

MSUB2 = MSUB(2)
for ori in ('r', 'c'):
    A_ = (lambda i, j: '(A->base_ + MUL(%s, A->stride_) + (%s))' % (i, j)) if ori == 'r' else (lambda i, j: '(A->base_ + (%s) + MUL(%s, A->sub_.stride_))' % (i, j))
    X_ = lambda p, q: '(g_a + (%s) + MUL(%s, g_lda))' % (p, q)
    sel = "(uplo == 'L' ? g_i <= g_j : g_i >= g_j)"        # filling::upper == 'L', filling::lower == 'U' (the enum encodes the row-major flip)
    intri = lambda p, q: "((g_uplo == 'U' && %s <= %s) || (g_uplo == 'L' && %s >= %s))" % (p, q, p, q)
    K = '(g_info == 0 ? g_n0 : g_info - 1)'
    Check('P_potrf_' + ori, ['C14'], 'lapack', fn='w_P_potrf_r', params=['ret', 'uplo', 'A'],
          wrapper=('void', 'MS2* ret, char uplo, MS2* A', 'new(ret) MS2(multi::lapack::potrf(static_cast<multi::lapack::filling>(uplo), *A));') if ori == 'r' else None,
          cxx={'A': MSUB2, 'ret': MSUB2}, ghosts=[(I64, 'g_n0'), (I64, 'g_i'), (I64, 'g_j'), ('int32_t', 'g_info')],
          stubs=[Stub('dpotrf_', record=[('g_uplo', 0, None, 'deref'), ('g_n', 1, None, 'deref'), ('g_a', 2, None, 'ptr'), ('g_lda', 3, None, 'deref')], count='g_calls',
                      body='*a4 = g_info;')],
          requires=["(uplo == 'U' || uplo == 'L') && A->base_ != 0 && 0 < g_n0 && g_n0 < SMALL && 0 <= g_info && g_info <= g_n0",
                    'A->offset_ == 0 && A->sub_.offset_ == 0 && A->sub_.sub_.offset_ == 0 && A->sub_.sub_.nelems_ == 1',
                    '0 < A->stride_ && A->stride_ < SMALL && 0 < A->sub_.stride_ && A->sub_.stride_ < SMALL',
                    'A->nelems_ == MUL(g_n0, A->stride_) && A->sub_.nelems_ == MUL(g_n0, A->sub_.stride_)', 'PTR_SANE(A->base_) && INOFF(MUL(g_n0, A->stride_)) && INOFF(MUL(g_n0, A->sub_.stride_)) && INOFF(MUL(A->stride_, (I64)g_info)) && INOFF(MUL(A->sub_.stride_, (I64)g_info))',
                    ('A->sub_.stride_ == 1 && A->stride_ != 1 && A->stride_ >= g_n0' if ori == 'r' else 'A->stride_ == 1 && A->sub_.stride_ >= MAX1(g_n0)'), 'INR(g_i) && INR(g_j)'],
          lemmas=['LEMMA_MULDIV(g_n0, A->stride_)', 'LEMMA_MULDIV(g_n0, A->sub_.stride_)', 'LEMMA_MULZERO(g_n0, A->stride_)', 'LEMMA_MULZERO(g_n0, A->sub_.stride_)',
                  'LEMMA_MULREM(g_n0, A->stride_)', 'LEMMA_MULREM(g_n0, A->sub_.stride_)', 'LEMMA_MUL1(g_n0)', 'LEMMA_MUL0(A->stride_)', 'LEMMA_MUL0(A->sub_.stride_)',
                  'LEMMA_MUL1(g_i)', 'LEMMA_MUL1(g_j)'] + [l % st_ for st_ in ('A->stride_', 'A->sub_.stride_') for l in ('LEMMA_DISTL(%s, (I64)g_info, -1)', 'LEMMA_COMM(%s, (I64)g_info)', 'LEMMA_COMM(%s, (I64)g_info - 1)', 'LEMMA_COMM(%s, -1)', 'LEMMA_MULNEG(1, %s)', 'LEMMA_MUL1(%s)', 'LEMMA_MULDIV((I64)g_info, %s)', 'LEMMA_MULDIV((I64)g_info - 1, %s)', 'LEMMA_MULREM((I64)g_info - 1, %s)', 'LEMMA_COMM(%s, g_n0)')] + ['LEMMA_DIV0(A->stride_)', 'LEMMA_DIV0(A->sub_.stride_)', 'LEMMA_MULDIV(%s, A->stride_)' % K, 'LEMMA_MULDIV(%s, A->sub_.stride_)' % K, 'LEMMA_MUL1(%s)' % K, 'LEMMA_COMM(A->stride_, %s)' % K, 'LEMMA_COMM(A->sub_.stride_, %s)' % K],
          ensures=[('exactly one LAPACK call on the whole view: n = size, a = first element, valid leading dimension', 'g_calls == 1 && g_n == g_n0 && g_a == A->base_ && g_lda >= MAX1(g_n)'),
                   ('the triangle LAPACK factorises is the triangle of the view the caller selected',
                    'IMPLIES(0 <= g_i && g_i < g_n0 && 0 <= g_j && g_j < g_n0 && %s, (%s == %s && %s) || (%s == %s && %s))'
                    % (sel, A_('g_i', 'g_j'), X_('g_i', 'g_j'), intri('g_i', 'g_j'), A_('g_i', 'g_j'), X_('g_j', 'g_i'), intri('g_j', 'g_i'))),
                   ('the returned view is the leading k x k block (k = n if INFO == 0, else INFO-1) of the same storage',
                    'ret->base_ == A->base_ && ret->stride_ == A->stride_ && ret->sub_.stride_ == A->sub_.stride_ && ret->offset_ == 0 && ret->sub_.offset_ == 0 && '
                    'ret->nelems_ == MUL(%s, A->stride_) && ret->sub_.nelems_ == MUL(%s, A->sub_.stride_)' % (K, K))],
          covers=['g_info == 0 && g_n0 > 2', 'g_info == 2 && g_n0 > 3', "uplo == 'U'", "uplo == 'L'"],
          assigns=['*ret'], mode='uf', objbits=12, timeout=900, unwind=4, cbmc_flags=['--no-pointer-check'])

# ---------------------------------------------------------------------------------------------------------------------
# gesvd(AA, UU, ss, VV): workspace query + computation.  dgesvd_ is an ASSUMED contract (LAPACK: SVD of the column-major M x N matrix
# a(lda), U (M x M, ldu), VT (N x N, ldvt), singular values s); a row-major m x n view is handed over as its transpose (M = n, N = m).
Group('lapack2', ['boost/multi/array.hpp', 'boost/multi/adaptors/lapack/gesvd.hpp'], profile='O', libs=['-llapack', '-lopenblas'], prelude='''
using MS2 = multi::subarray<double, 2, double*>;
using MS1 = multi::subarray<double, 1, double*>;
''', cut=[r'_ZSt.*terminate', r'_ZNSt7__cxx11', r'_ZNSt13runtime_error', r'_ZSt9to_string', r'_ZSt17__throw_bad_alloc', r'_ZSt28__throw_bad_array_new_length'], noinline=[r'^_ZNSt7__cxx11', r'^_ZStplI', r'^_ZSt9to_string', r'^_ZNSt13runtime_error'])
MSUB1 = MSUB(1)
def mat(v, rows, cols):
    return ' && '.join(['%s->base_ != 0 && %s->offset_ == 0 && %s->sub_.offset_ == 0 && %s->sub_.sub_.offset_ == 0 && %s->sub_.sub_.nelems_ == 1' % ((v,)*5),
                        '%s->sub_.stride_ == 1 && 0 < %s->stride_ && %s->stride_ < SMALL && %s->stride_ >= MAX1(%s)' % (v, v, v, v, cols),
                        '%s->nelems_ == MUL(%s, %s->stride_) && %s->sub_.nelems_ == MUL(%s, %s->sub_.stride_)' % (v, rows, v, v, cols, v)])
REC = ('struct { int8_t jobu, jobvt; I64 M, N, lda, ldu, ldvt, lwork; double *a, *s, *u, *vt, *work; } g_c[2]; int g_info[2];\n')
Check('P_gesvd', ['C14'], 'lapack2', fn='w_P_gesvd', params=['AA', 'UU', 'ss', 'VV'],
      wrapper=('void', 'MS2* AA, MS2* UU, MS1* ss, MS2* VV', 'multi::lapack::gesvd(*AA, *UU, *ss, *VV);'),
      cxx={'AA': MSUB2, 'UU': MSUB2, 'VV': MSUB2, 'ss': MSUB1}, ghosts=[(I64, 'g_m'), (I64, 'g_n'), (I64, 'g_p'), (I64, 'g_q'), ('double', 'g_dwork')],
      stubs=[Stub('dgesvd_', count='g_calls', decl=REC, ghosts=['g_c'],
                  body='{ if(g_calls <= 2){ int k_ = g_calls - 1; g_c[k_].jobu = *a0; g_c[k_].jobvt = *a1; g_c[k_].M = *a2; g_c[k_].N = *a3; g_c[k_].a = a4; g_c[k_].lda = *a5; g_c[k_].s = a6; g_c[k_].u = a7; '
                       'g_c[k_].ldu = *a8; g_c[k_].vt = a9; g_c[k_].ldvt = *a10; g_c[k_].work = a11; g_c[k_].lwork = *a12; *a13 = g_info[k_]; if(*a12 == -1) *a11 = g_dwork; } return; }'),
             Stub(r'operator new\(unsigned long\)', count='g_news', record=[('g_new_bytes', 0, None)], ret='g_block'),
             Stub(r'operator delete\(void\*\)', count='g_deletes', record=[('g_deleted', 0, None, 'ptr')])],
      setup='g_info[0] = 0; g_info[1] = 0;',
      requires=['0 < g_m && g_m < SMALL && 0 < g_n && g_n < SMALL && 1 <= g_dwork && g_dwork < 1000000.0 && g_block != 0',
                mat('AA', 'g_m', 'g_n'), mat('UU', 'g_m', 'g_m'), mat('VV', 'g_n', 'g_n'),
                'ss->base_ != 0 && ss->stride_ == 1 && ss->offset_ == 0 && ss->nelems_ == MUL(g_m < g_n ? g_m : g_n, ss->stride_) && ss->sub_.offset_ == 0 && ss->sub_.nelems_ == 1', 'INR(g_p) && INR(g_q)'],
      lemmas=[l % (n_, '%s->stride_' % v) for v, n_ in (('AA', 'g_m'), ('UU', 'g_m'), ('VV', 'g_n')) for l in ('LEMMA_MULDIV(%s, %s)', 'LEMMA_MULZERO(%s, %s)', 'LEMMA_MULREM(%s, %s)')] +
             [l % (n_, '%s->sub_.stride_' % v) for v, n_ in (('AA', 'g_n'), ('UU', 'g_m'), ('VV', 'g_n')) for l in ('LEMMA_MULDIV(%s, %s)', 'LEMMA_MULZERO(%s, %s)', 'LEMMA_MULREM(%s, %s)')] +
             ['LEMMA_MULDIV(g_m < g_n ? g_m : g_n, ss->stride_)', 'LEMMA_MULZERO(g_m < g_n ? g_m : g_n, ss->stride_)', 'LEMMA_MULREM(g_m < g_n ? g_m : g_n, ss->stride_)'] +
             ['LEMMA_MUL1(g_m)', 'LEMMA_MUL1(g_n)', 'LEMMA_MUL1(g_m < g_n ? g_m : g_n)', 'LEMMA_DIV0(AA->stride_)', 'LEMMA_DIV0(UU->stride_)', 'LEMMA_DIV0(VV->stride_)', 'LEMMA_MUL0(AA->stride_)'],
      ensures=[('workspace query followed by the computation: exactly two LAPACK calls', 'EXC != 0 || g_calls == 2'),
               ('both calls describe the same problem: all vectors requested, the transpose of the m x n row-major view (M = n, N = m), its row stride as leading dimension (valid: lda >= max(1, M))',
                'IMPLIES(g_calls == 2, ' + ' && '.join("g_c[%d].jobu == 'A' && g_c[%d].jobvt == 'A' && g_c[%d].M == g_n && g_c[%d].N == g_m && g_c[%d].a == AA->base_ && g_c[%d].lda >= MAX1(g_c[%d].M)" % ((k,)*7) for k in (0, 1)) + ')'),
               ('the Fortran cell X(p,q) of the input is the view element AA[q][p]', 'IMPLIES(g_calls == 2 && 0 <= g_p && g_p < g_n && 0 <= g_q && g_q < g_m, g_c[1].a + g_p + MUL(g_q, g_c[1].lda) == AA->base_ + MUL(g_q, AA->stride_) + g_p)'),
               ('outputs: singular values into ss, left vectors of the transposed problem into VV, right vectors into UU, each with its own row stride as leading dimension',
                'IMPLIES(g_calls == 2, ' + ' && '.join('g_c[%d].s == ss->base_ && g_c[%d].u == VV->base_ && g_c[%d].ldu == VV->stride_ && g_c[%d].vt == UU->base_ && g_c[%d].ldvt == UU->stride_' % ((k,)*5) for k in (0, 1)) + ')'),
               ('the workspace has the queried size, is allocated once and released once', 'IMPLIES(g_calls == 2, g_c[0].lwork == -1 && g_c[1].lwork == (I64)(int32_t)g_dwork && g_news == 1 && g_new_bytes == 8*(I64)(int32_t)g_dwork && g_c[1].work == (double*)g_block && g_deletes == 1 && g_deleted == g_block)')],
      covers=['g_calls == 2 && g_m > 2 && g_n > 3 && AA->stride_ > g_n'],
      assigns=[], mode='uf', objbits=12, timeout=900, unwind=4, cbmc_flags=['--no-pointer-check'])
