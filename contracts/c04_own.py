"""C04 / C06 (unbounded half): skeleton contracts of owning-array operations over trivially copyable elements (double, std::allocator).

Engine B (c08_lifecycle.py) checks values through a ghost heap but is bounded by 6 cells and D <= 2.  The checks here are the unbounded
complement for D up to 4: the element-moving work of an owning-array operation is delegated to an ISO algorithm or to a view assignment
that carries its own contract (std::uninitialized_copy_n: ISO [uninitialized.copy], assumed; view assignment: C05; elements() positions: C02),
so what remains to prove about the operation itself is its *skeleton*, for all extents, strides and index bases:
  * the new array gets exactly the canonical layout of the requested / source extents (every dimension, not only the leading one);
  * storage for exactly num_elements() elements is obtained once, and is the base of the result;
  * the delegated call receives the complete source range in canonical order (elements().begin() of the *source view*: same base, same
    layout in every dimension, position 0), the full element count and the new storage as destination -- exactly once.
"""
from common import *
from vf import Stub
import re
E = re.escape

Group('own', ['boost/multi/array.hpp'], profile='I', prelude='''
template<multi::dimensionality_type D> using CS = multi::const_subarray<double, D, double*>;
template<multi::dimensionality_type D> using AR = multi::array<double, D>;
template<multi::dimensionality_type D> using AI = multi::array<int, D>;
''', cut=[r'_ZSt.*terminate', r'_ZNSt7__cxx11', r'_ZSt9to_string', r'_ZSt20__throw_length_error', r'_ZSt17__throw_bad_alloc', r'_ZSt28__throw_bad_array_new_length'],
      noinline=[r'^_ZSt20uninitialized_copy_n', r'^_ZSt6copy_n', r'subarray<double, \dl.*::operator=<double, double\*', r'subarray<double, \dl.*::operator=\(boost::multi::const_subarray', r'^_ZSt20uninitialized_fill_n', r'^_ZSt6fill_n', r'subarray<double, \dl.*::operator=<double, double\*', r'^_ZNSt7__cxx11'])

def ARR(D, T='double'): return r're:boost::multi::array<%s,%d(,std::allocator<%s>)?>' % (T, D, T)
def EIc(D): return 're:boost::multi::elements_iterator_t<constdouble\\*,boost::multi::layout_t<%d>>' % D

def prod(ns):
    e = ns[-1]
    for n in reversed(ns[:-1]): e = 'MUL(%s, %s)' % (n, e)
    return e
def canonical(a, D, ns, fs, empty=None):
    """empty(k): C condition under which dimension k of the source has span 0: layout_t::extension() then reports [0,0) whatever offset_ is, so the
    index base of an empty dimension is unobservable and left unconstrained; None: the layout is an input.
    layout of a is layout_t<D>(extensions {[f_k, f_k+n_k)}): stride_k = (prod_{j>k} n_j) or 1, nelems_k = prod_{j>=k} n_j, offset_k = f_k*stride_k
    (an empty dimension reports the extension [0,0) whatever its index base: layout_t::extension())"""
    cs = []
    for k in range(D):
        sub = prod(ns[k+1:]) if k < D-1 else '1'
        st = '(%s != 0 ? %s : 1)' % (sub, sub) if k < D-1 else '1'
        cs += ['%s == %s' % (lp(a, k, 'stride_'), st), '%s == MUL(%s, %s)' % (lp(a, k, 'nelems_'), ns[k], sub), ('((%s) || ' % empty(k) if empty else '(') + '%s == MUL(%s, %s))' % (lp(a, k, 'offset_'), fs[k], st)]
    cs += ['%s == 0 && %s == 1' % (lp(a, D, 'offset_'), lp(a, D, 'nelems_'))]
    return cs
def canonical_ens(a, D, ns, fs, empty, guard='EXC == 0', what='the new array'):
    cs = canonical(a, D, ns, fs, empty)
    return [('%s has the canonical layout of the requested extents: %s of dimension %d' % (what, x, k), 'IMPLIES(%s, %s)' % (guard, cs[3*k + j]))
            for k in range(D) for j, x in enumerate(('stride', 'span (nelems)', 'offset (index base)'))] + [('%s: innermost (0-D) layout is the unit layout' % what, 'IMPLIES(%s, %s)' % (guard, cs[-1]))]
def storage(a, tot, news='g_news'):
    return '(%s == 0 ? (%s == 0 && %s->base_ == 0) : (%s == 1 && g_new_bytes == 8*%s && %s->base_ == (double*)g_block))' % (tot, news, a, news, tot, a)
def same_range(g, v, D):
    cs = ['%s.base_ == %s->base_' % (g, v)]
    for k in range(D): cs += ['%s.l_.%s%s == %s' % (g, 'sub_.'*k, x, lp(v, k, x)) for x in ('stride_', 'offset_', 'nelems_')]
    return ' && '.join(cs)
def prod_lemmas(ns, fs):
    out = []
    for k in range(len(ns)):
        sub = prod(ns[k+1:]) if k < len(ns)-1 else '1'
        out += ['LEMMA_MUL1(%s)' % ns[k], 'LEMMA_MUL0(%s)' % ns[k], 'LEMMA_MULZERO(%s, %s)' % (ns[k], sub), 'LEMMA_NONNEG(%s, %s)' % (ns[k], sub), 'LEMMA_MUL1(%s)' % fs[k], 'LEMMA_COMM(%s, %s)' % (ns[k], sub),
                'LEMMA_MULDIV(%s, %s)' % (ns[k], sub), 'LEMMA_MULDIV(%s, %s)' % (fs[k], sub), 'LEMMA_MULREM(%s, %s)' % (ns[k], sub), 'LEMMA_MULREM(%s, %s)' % (fs[k], sub)]
        st = '(%s != 0 ? %s : 1)' % (sub, sub) if k < len(ns)-1 else '1'
        out += ['LEMMA_COMM(%s, %s)' % (fs[k], st), 'LEMMA_COMM(0, %s)' % st, 'LEMMA_MUL0(%s)' % st]
        F, N = fs[k], ns[k]      # the view-level facts (WF_lemmas) for a canonical layout: stride st, span N*st (when the inner count is not 0), offset F*st
        out += ['LEMMA_MULDIV(%s,%s)' % (N, st), 'LEMMA_MULDIV(%s,%s)' % (F, st), 'LEMMA_MULREM(%s,%s)' % (N, st), 'LEMMA_MULREM(%s,%s)' % (F, st), 'LEMMA_MULZERO(%s,%s)' % (N, st),
                'LEMMA_DIST(%s,%s,%s)' % (F, N, st), 'LEMMA_MULDIV(%s+%s,%s)' % (F, N, st), 'LEMMA_MULREM(%s+%s,%s)' % (F, N, st), 'LEMMA_MUL1(%s+%s)' % (F, N)]
        if k < len(ns)-1: out += ['LEMMA_MUL0(%s)' % sub, 'LEMMA_MUL1(%s)' % sub, 'LEMMA_DIV0(%s)' % sub, 'LEMMA_MULDIV(%s, 1)' % sub, 'LEMMA_MULZERO(%s, %s)' % (fs[k], sub)]
    return out + ['LEMMA_DIV0(1)', 'LEMMA_MUL0(0)', 'LEMMA_MUL0(1)', 'LEMMA_MUL1(1)', 'LEMMA_MUL1(0)']

NEW = Stub(r'operator new\(unsigned long\)', count='g_news', record=[('g_new_bytes', 0, None)], ret='g_block')
DEL = Stub(r'operator delete\(void\*(, unsigned long)?\)', count='g_deletes', record=[('g_deleted', 0, None, 'ptr')], optional=True)

for D in (1, 2, 3, 4):
    ns = ['g_n%d' % k for k in range(D)]; fs = ['g_f%d' % k for k in range(D)]
    G = ghosts_fn(D)
    UCN = Stub(r'double\* std::uninitialized_copy_n<boost::multi::elements_iterator_t<double const\*, boost::multi::layout_t<%dl, long> >, long, double\*>\(.*' % D,
               record=[('g_cp_first', 0, EIc(D)), ('g_cp_n', 1, None), ('g_cp_dst', 2, None, 'ptr')], ret='g_cp_ret', count='g_cp_calls')
    RAW = Stub(r'double\* std::uninitialized_copy_n<double( const)?\*, (unsigned )?long, double\*>\(.*', count='g_raw_calls', ret='g_raw_ret', optional=True,
               record=[('g_raw_first', 0, None, 'ptr'), ('g_raw_n', 1, None), ('g_raw_dst', 2, None, 'ptr')], absent='double *g_raw_first; I64 g_raw_n; double *g_raw_dst;')
    ii = ['g_i%d' % k for k in range(D)]
    in_range = ' && '.join('%s <= %s && %s < %s + %s' % (fs[k], ii[k], ii[k], fs[k], ns[k]) for k in range(D))
    lin = ' + '.join('MUL(%s - %s, %s)' % (ii[k], fs[k], prod(ns[k+1:]) if k < D-1 else '1') for k in range(D))
    addr = ' + '.join('(MUL(%s, %s) - %s)' % (ii[k], lp('v', k, 'stride_'), lp('v', k, 'offset_')) for k in range(D))    # at_aux_: base_ + (idx*stride - offset)
    Check('O%d_ctor_view' % D, ['C04'], 'own', fn='w_O%d_ctor_view' % D, params=['ret', 'v'],
          wrapper=('void', 'AR<%d>* ret, CS<%d> const* v' % (D, D), 'new(ret) AR<%d>(*v);' % D),
          cxx={'ret': ARR(D), 'v': SUB(D)}, ghosts=G + [(I64, x) for x in ii], stubs=[NEW, DEL, UCN, RAW], mode='uf',
          requires=[WF('v', D), '%s == 0 && %s == 1' % (lp('v', D, 'offset_'), lp('v', D, 'nelems_')), 'v->base_ != 0 && g_block != 0 && PTR_SANE(v->base_)',
                    'INOFF(%s)' % prod(ns), ' && '.join('%s < SMALL' % n for n in ns), ' && '.join('INR(%s)' % x for x in ii), ' && '.join('INOFF(%s) && INOFF(%s)' % (lp('v', k, 'nelems_'), lp('v', k, 'offset_')) for k in range(D))],
          lemmas=WF_lemmas('v', D) + prod_lemmas(ns, fs),
          ensures=canonical_ens('ret', D, ns, fs, lambda k: '%s == 0' % ns[k]) + [('storage for exactly num_elements() elements is allocated once and becomes the base', 'IMPLIES(EXC == 0, %s)' % storage('ret', prod(ns))),
                   ('[delegation] the elements are copied by exactly one std::uninitialized_copy_n over the elements() range', 'IMPLIES(EXC == 0, g_cp_calls == 1 && g_raw_calls == 0)'),
                   ('std::uninitialized_copy_n receives elements().begin() of the source view: same base, same layout in every dimension, position 0',
                    'IMPLIES(EXC == 0 && g_cp_calls == 1, g_cp_first.n_ == 0 && %s)' % same_range('g_cp_first', 'v', D)),
                   ('std::uninitialized_copy_n receives the full element count and the new storage as destination',
                    'IMPLIES(EXC == 0 && g_cp_calls == 1, g_cp_n == %s && g_cp_dst == ret->base_)' % prod(ns)),
                   ('a flat copy of the source storage (instead of the elements() range) is only used when, for every index tuple, the flat position of the element is its canonical linear index',
                    'IMPLIES(EXC == 0 && g_raw_calls >= 1 && %s, g_raw_calls == 1 && g_cp_calls == 0 && g_raw_n == %s && g_raw_dst == ret->base_ && g_raw_first + (%s) == v->base_ + (%s))' % (in_range, prod(ns), lin, addr))],
          covers=[' && '.join('%s > 1' % n for n in ns) + ' && v->stride_ < 0' , 'g_n0 == 0', 'g_f0 != 0'],
          assigns=['*ret'], objbits=12, timeout=900, unwind=4, cbmc_flags=['--no-pointer-check'], solvers=('cvc5', 'cadical'))

# ---------------------------------------------------------------------------------------------------------------------
# converting copy-assignment  array<double,D>::operator=(array<int,D> const&)  over any prior state of the target.
# std::copy_n / std::uninitialized_copy_n (ISO [alg.copy], [uninitialized.copy]) on raw pointers are assumed contracts (recording stubs);
# owning arrays are compact row-major, so "flat copy of num_elements() elements from other.data_elements() to this->data_elements()" is
# element-for-element assignment once the target has the layout of the source extents -- which is the postcondition proved here.
def is_canonical(a, D, ns, fs):
    return ' && '.join(canonical(a, D, ns, fs))
for D, SRC in [(d_, t_) for t_ in ('int', 'double') for d_ in (1, 2, 3)]:
    TAG = 'conv' if SRC == 'int' else 'copy'; SP = 'int const' if SRC == 'int' else r'double( const)?'
    na = ['g_n%d' % k for k in range(D)]; fa = ['g_f%d' % k for k in range(D)]
    nb = ['g_m%d' % k for k in range(D)]; fb = ['g_e%d' % k for k in range(D)]
    G = ghosts_fn(D) + ghosts_fn(D, f='g_e', n='g_m')
    CPN = Stub(r'double\* std::copy_n<' + SP + r'\*, (unsigned )?long, double\*>\(.*', record=[('g_c_src', 0, None, 'ptr'), ('g_c_n', 1, None), ('g_c_dst', 2, None, 'ptr')], ret='g_c_ret', count='g_c_calls')
    UCI = Stub(r'double\* std::uninitialized_copy_n<' + SP + r'\*, (unsigned )?long, double\*>\(.*', record=[('g_u_src', 0, None, 'ptr'), ('g_u_n', 1, None), ('g_u_dst', 2, None, 'ptr')], ret='g_u_ret', count='g_u_calls')
    Na, Nb = prod(na), prod(nb)
    same_ext = ' && '.join('%s == %s && (%s == 0 || %s == %s)' % (na[k], nb[k], na[k], fa[k], fb[k]) for k in range(D))
    eff = lambda ns, fs, k: ('(%s == 0 ? 0 : %s)' % (prod(ns[k:]), fs[k]), '(%s == 0 ? 0 : %s + %s)' % (prod(ns[k:]), fs[k], ns[k]))      # extension as layout_t::extension() reports it
    lib_same_ext = ' && '.join('%s == %s && %s == %s' % (eff(na, fa, k)[0], eff(nb, fb, k)[0], eff(na, fa, k)[1], eff(nb, fb, k)[1]) for k in range(D))
    REUSE = ('%s == %s' % (Na, Nb)) if TAG == 'conv' else lib_same_ext
    bounds = lambda ns, fs: ' && '.join('0 <= %s && %s < SMALL && INR(%s)' % (n, n, f) for n, f in zip(ns, fs))
    Check('O%d_%s_assign' % (D, TAG), ['C04', 'C19'], 'own', fn='w_O%d_%s_assign' % (D, TAG), params=['self', 'other'],
          wrapper=('void', 'AR<%d>* self, %s<%d> const* other' % (D, 'AI' if SRC == 'int' else 'AR', D), '*self = *other;'),
          cxx={'self': ARR(D), 'other': ARR(D, SRC)}, ghosts=G, stubs=[NEW, DEL, CPN, UCI], mode='uf',
          requires=[bounds(na, fa), bounds(nb, fb), is_canonical('self', D, na, fa), is_canonical('other', D, nb, fb), 'INOFF(%s) && INOFF(%s)' % (Na, Nb),
                    'g_block != 0 && self->base_ != 0 && other->base_ != 0',
                    '(void*)self != (void*)other'],
          lemmas=prod_lemmas(na, fa) + prod_lemmas(nb, fb),
          ensures=canonical_ens('self', D, nb, fb, lambda k: '%s == 0' % prod(nb[k:]), what='the target') + [
                   ('the source is not modified', 'IMPLIES(EXC == 0, %s)' % is_canonical('other', D, nb, fb)),
                   ('[delegation] the elements are transferred by exactly one flat ISO copy (std::copy_n into the existing storage or std::uninitialized_copy_n into new storage)',
                    'IMPLIES(EXC == 0, g_c_calls + g_u_calls == 1)'),
                   ('the flat copy reads all num_elements() elements of the source from its first element and writes them from the first element of the target',
                    'IMPLIES(EXC == 0 && g_c_calls + g_u_calls == 1, g_c_calls == 1 ? (g_c_src == other->base_ && g_c_n == %s && g_c_dst == self->base_) : (g_u_src == other->base_ && g_u_n == %s && g_u_dst == self->base_))' % (Nb, Nb)),
                   ('%s: the storage is reused (no allocation, no deallocation, same base)' % ('same element count' if TAG == 'conv' else 'same extensions'), 'IMPLIES(EXC == 0 && %s, g_news == 0 && g_deletes == 0 && self->base_ == OLD(self->base_))' % REUSE),
                   ('otherwise: the old storage is released exactly once (if there was any) and exactly the needed storage is obtained',
                    'IMPLIES(EXC == 0 && !(%s), %s && (%s == 0 ? g_deletes == 0 : (g_deletes == 1 && g_deleted == (void*)OLD(self->base_))))' % (REUSE, storage('self', Nb), Na))],
          covers=[same_ext + ' && g_n0 > 1', '%s == %s && !(%s) && g_n0 > 0' % (Na, Nb, same_ext), '%s != %s && g_n0 > 0 && g_m0 > 0' % (Na, Nb), '%s == 0 && g_m0 > 0' % Na, '%s == 0 && g_n0 > 0' % Nb],
          assigns=['*self'], objbits=12, timeout=1200, unwind=4, cbmc_flags=['--no-pointer-check'], solvers=('cvc5', 'cadical'))

# ---------------------------------------------------------------------------------------------------------------------
# reextent(x) / reextent(x, value) of array<double, D> (trivially default constructible element), D = 2, 3 -- BOUNDED: bit-precise arithmetic
# with every multiplication / division operand |x| < 16 ("narrow" mode), no loop in the closure.  The element traffic is delegated to
#   * the view assignment  tmp.apply(is) = this->apply(is)   (contract: C05, checks V*_assign_rv),
#   * std::uninitialized_fill_n (ISO [uninitialized.fill], assumed) for the fill value,
# both replaced by recording stubs.  Proved about reextent itself, for every old extents (any index bases) and every new sizes:
#   the result has the canonical layout of x over fresh storage of exactly num_elements(x) elements; the old storage is released once;
#   the two views handed to the assignment have the extents of the intersection, and for EVERY index tuple in both extents (ghost tuple)
#   the target cell is the canonical cell of that tuple in the new storage and the source cell is its cell in the old storage;
#   with a fill value, the whole new storage is filled with exactly that value BEFORE the common part is copied over it (so every
#   element outside the old extents ends up equal to the fill value).
for D in (2, 3):
    na = ['g_n%d' % k for k in range(D)]; fa = ['g_f%d' % k for k in range(D)]; xs = ['x%d' % k for k in range(D)]; ii = ['g_i%d' % k for k in range(D)]
    Na, Nx = prod(na), prod(xs)
    sub = lambda ns, k: (prod(ns[k+1:]) if k < D-1 else '1')
    oe_first = ['(%s == 0 ? 0 : %s)' % (prod(na[k:]), fa[k]) for k in range(D)]; oe_last = ['(%s == 0 ? 0 : %s + %s)' % (prod(na[k:]), fa[k], na[k]) for k in range(D)]
    lo = ['(%s > 0 ? %s : 0)' % (oe_first[k], oe_first[k]) for k in range(D)]; hi = ['(%s < %s ? %s : %s)' % (oe_last[k], xs[k], oe_last[k], xs[k]) for k in range(D)]
    in_both = ' && '.join('%s <= %s && %s < %s' % (lo[k], ii[k], ii[k], hi[k]) for k in range(D))
    nonempty = ' && '.join('%s < %s' % (lo[k], hi[k]) for k in range(D))
    pos_a = ' + '.join('MUL(%s - %s, %s)' % (ii[k], fa[k], sub(na, k)) for k in range(D))
    pos_x = ' + '.join('MUL(%s, %s)' % (ii[k], sub(xs, k)) for k in range(D))
    cell = lambda g: '%s.base_ + (%s)' % (g, ' + '.join('MUL(%s - %s, %s.%sstride_)' % (ii[k], lo[k], g, 'sub_.'*k) for k in range(D)))    # p-th cell of the view, p = i - lo (independent of the view's own index base)
    size_is = lambda g: ' && '.join('%s.%snelems_ == MUL(%s - %s, %s.%sstride_)' % (g, 'sub_.'*k, hi[k], lo[k], g, 'sub_.'*k) for k in range(D))
    same_base_idx = ' && '.join('DIV(g_L.%soffset_, g_L.%sstride_) == DIV(g_R.%soffset_, g_R.%sstride_)' % (('sub_.'*k,)*4) for k in range(D))
    same_ext = ' && '.join('%s == %s && %s == %s' % (oe_first[k], '0', oe_last[k], xs[k]) for k in range(D))
    ASG = Stub(r'boost::multi::subarray<double, %dl, double\*, boost::multi::layout_t<%dl, long> >& boost::multi::subarray<double, %dl, double\*, boost::multi::layout_t<%dl, long> >::operator=<double, double\*, boost::multi::layout_t<%dl, long> >\(boost::multi::const_subarray<double, %dl, double\*, boost::multi::layout_t<%dl, long> >&&\) &&' % ((D,)*7),
               record=[('g_L', 0, MSUB(D)), ('g_R', 1, SUB(D))], count='g_as_calls', ret='g_as_ret', decl='int g_seq; int g_as_seq; int g_fill_seq;', ghosts=['g_seq', 'g_as_seq', 'g_fill_seq'], body='g_as_seq = ++g_seq;')
    # std::uninitialized_fill_n and (for a trivially constructible element) std::fill_n are the same ISO operation on raw storage: fill [dst, dst+n) with v
    FILL = Stub(r'double\* std::uninitialized_fill_n<double\*, unsigned long, double>\(.*', record=[('g_fl_dst', 0, None, 'ptr'), ('g_fl_n', 1, None), ('g_fl_v', 2, None, 'deref')], count='g_flu_calls', ret='g_fl_ret', body='g_fill_seq = ++g_seq;', optional=True,
                absent='double *g_fl_dst; I64 g_fl_n; double g_fl_v;')
    FILL2 = Stub(r'double\* std::fill_n<double\*, unsigned long, double>\(.*', record=[('g_fl_dst', 0, None, 'ptr'), ('g_fl_n', 1, None), ('g_fl_v', 2, None, 'deref')], count='g_flf_calls', ret='g_fl2_ret', body='g_fill_seq = ++g_seq;', optional=True,
                 absent='double *g_fl_dst; I64 g_fl_n; double g_fl_v;')
    RAWD = Stub(r'double\* std::uninitialized_copy_n<double( const)?\*, (unsigned )?long, double\*>\(.*', count='g_rawu_calls', ret='g_raw_ret', optional=True,
                record=[('g_raw_first', 0, None, 'ptr'), ('g_raw_n', 1, None), ('g_raw_dst', 2, None, 'ptr')], absent='double *g_raw_first; I64 g_raw_n; double *g_raw_dst;')
    RAWC = Stub(r'double\* std::copy_n<double( const)?\*, (unsigned )?long, double\*>\(.*', count='g_rawc_calls', ret='g_rawc_ret', optional=True,
                record=[('g_raw_first', 0, None, 'ptr'), ('g_raw_n', 1, None), ('g_raw_dst', 2, None, 'ptr')], absent='double *g_raw_first; I64 g_raw_n; double *g_raw_dst;')
    for fill, based in ((False, False), (True, False), (False, True), (True, True)):
        nm = 'O%d_reextent%s%s' % (D, '_fill' if fill else '', '_b' if based else '')
        ens = canonical_ens('self', D, xs, ['0']*D, lambda k: '%s == 0' % prod(xs[k:]), guard='EXC == 0 && !(%s)' % same_ext, what='the array') + [
            ('same extents: nothing happens (same storage, same layout, no allocation, no element traffic)',
             'IMPLIES(EXC == 0 && %s, self->base_ == OLD(self->base_) && g_news == 0 && g_deletes == 0 && g_as_calls == 0 && (g_rawu_calls + g_rawc_calls) == 0%s)' % (same_ext, ' && (g_flu_calls + g_flf_calls) == 0' if fill else '')),
            ('different extents: storage for exactly num_elements(x) elements is obtained once and becomes the base; the old storage is released exactly once',
             'IMPLIES(EXC == 0 && !(%s), %s && (%s == 0 ? g_deletes == 0 : (g_deletes == 1 && g_deleted == (void*)OLD(self->base_))))' % (same_ext, storage('self', Nx), Na)),
            ('[delegation] different extents with a common part: it is transferred by exactly one view assignment', 'IMPLIES(EXC == 0 && !(%s) && %s, g_as_calls == 1 && (g_rawu_calls + g_rawc_calls) == 0)' % (same_ext, nonempty)),
            ('no common part: no element traffic', 'IMPLIES(EXC == 0 && !(%s), g_as_calls == 0 && ((g_rawu_calls + g_rawc_calls) == 0 || g_raw_n == 0))' % nonempty),
            ('the two views handed to the assignment both have exactly the sizes of the intersection of the old and the new extents',
             'IMPLIES(EXC == 0 && g_as_calls == 1 && %s, %s && %s)' % (nonempty, size_is('g_L'), size_is('g_R'))),
            ('the two views handed to the assignment have the same index bases (view assignment requires equal extensions: BOOST_MULTI_ASSERT in subarray::operator=)',
             'IMPLIES(EXC == 0 && g_as_calls == 1 && %s, %s)' % (nonempty, same_base_idx)),
            ('for every index tuple in both extents: the corresponding cell of the assigned view is the canonical cell of that tuple in the NEW storage, that of the source view is its cell in the OLD storage',
             'IMPLIES(EXC == 0 && g_as_calls == 1 && %s, %s == self->base_ + (%s) && %s == OLD(self->base_) + (%s))' % (in_both, cell('g_L'), pos_x, cell('g_R'), pos_a)),
            ('a flat prefix copy (instead of the view assignment) is only used when every index tuple in both extents has the same flat position in the old and the new storage and lies inside the copied prefix',
             'IMPLIES(EXC == 0 && (g_rawu_calls + g_rawc_calls) >= 1 && %s, (g_rawu_calls + g_rawc_calls) == 1 && g_as_calls == 0 && g_raw_first == OLD(self->base_) && g_raw_dst == self->base_ && (%s) == (%s) && (%s) < g_raw_n)' % (in_both, pos_a, pos_x, pos_a)),
            ('a flat prefix copy stays inside both the old and the new storage', 'IMPLIES(EXC == 0 && (g_rawu_calls + g_rawc_calls) >= 1, 0 <= g_raw_n && g_raw_n <= %s && g_raw_n <= %s)' % (Na, Nx))]
        if fill:
            in_new_not_old = ' && '.join('0 <= %s && %s < %s' % (ii[k], ii[k], xs[k]) for k in range(D)) + ' && !(%s)' % ' && '.join('%s <= %s && %s < %s' % (oe_first[k], ii[k], ii[k], oe_last[k]) for k in range(D))
            ens += [('with a fill value: whenever some index tuple of the new extents lies outside the old extents, the whole new storage is filled with exactly that value, before the common part is copied over it',
                     'IMPLIES(EXC == 0 && !(%s) && %s, (g_flu_calls + g_flf_calls) == 1 && g_fl_dst == self->base_ && g_fl_n == %s && g_fl_v == fv && (g_as_calls == 0 || g_fill_seq < g_as_seq))' % (same_ext, in_new_not_old, Nx))]
        Check(nm, ['C06', 'C19'] if based else ['C06'], 'own', fn='w_' + nm, params=['self'] + xs + (['fv'] if fill else []),
              wrapper=('void', 'AR<%d>* self, %s%s' % (D, ', '.join('long %s' % x for x in xs), ', double fv' if fill else ''), 'self->reextent({%s}%s);' % (', '.join(xs), ', fv' if fill else '')),
              cxx={'self': ARR(D)}, ghosts=ghosts_fn(D) + [(I64, x) for x in ii], stubs=[NEW, DEL, ASG, RAWD, RAWC] + ([FILL, FILL2] if fill else []), mode='narrow:5',
              setup='g_seq = 0; g_as_seq = 0; g_fill_seq = 0;',
              requires=[' && '.join('0 <= %s && %s < 16 && -16 < %s && %s < 16 && 0 <= %s && %s < 16 && -32 < %s && %s < 32' % (n, n, f, f, x, x, i_, i_) for n, f, x, i_ in zip(na, fa, xs, ii)),
                        is_canonical('self', D, na, fa), '%s < 16 && %s < 16' % (Na, Nx), (' || '.join('%s != 0' % f for f in fa)) if based else (' && '.join('%s == 0' % f for f in fa)), 'g_block != 0 && self->base_ != 0 && PTR_SANE(self->base_) && PTR_SANE(g_block)'] + (['fv == fv'] if fill else []),
              ensures=ens,
              covers=['EXC == 0 && g_as_calls == 1 && x0 > g_n0 && g_n0 > 1 && x1 < g_n1 && x1 > 0'] + (['EXC == 0 && g_as_calls == 1 && g_f0 < 0'] if based else []) + [ 'EXC == 0 && %s == 0 && %s > 0' % (Na, Nx), 'EXC == 0 && %s == 0 && %s > 0' % (Nx, Na)],
              tier='quick' if (D == 2 or not based) else 'thorough',
              assigns=['*self'], objbits=12, timeout=1200, unwind=4, cbmc_flags=['--no-pointer-check'],
              bounded='every operand of a multiplication or division |x| < 16 (extents, index bases, strides); arithmetic bit-precise within that bound')

# ---------------------------------------------------------------------------------------------------------------------
# reshape(x) (same element count: the flat element sequence is kept because neither the storage nor its order is touched) and clear()
for D in (1, 2, 3):
    na = ['g_n%d' % k for k in range(D)]; fa = ['g_f%d' % k for k in range(D)]; xs = ['x%d' % k for k in range(D)]
    Na, Nx = prod(na), prod(xs)
    bnds = ' && '.join('0 <= %s && %s < SMALL && INR(%s) && 0 <= %s && %s < SMALL' % (n, n, f, x, x) for n, f, x in zip(na, fa, xs))
    Check('O%d_reshape' % D, ['C06'], 'own', fn='w_O%d_reshape' % D, params=['self'] + xs,
          wrapper=('void', 'AR<%d>* self, %s' % (D, ', '.join('long %s' % x for x in xs)), 'self->reshape({%s});' % ', '.join(xs)),
          cxx={'self': ARR(D)}, ghosts=ghosts_fn(D), stubs=[NEW, DEL], mode='uf',
          requires=[bnds, is_canonical('self', D, na, fa), 'INOFF(%s) && INOFF(%s)' % (Na, Nx), 'self->base_ != 0 && g_block != 0', '%s == %s   /* documented precondition of reshape: same number of elements */' % (Na, Nx)],
          lemmas=prod_lemmas(na, fa) + prod_lemmas(xs, ['0']*D),
          ensures=canonical_ens('self', D, xs, ['0']*D, lambda k: '%s == 0' % prod(xs[k:]), guard='EXC == 0', what='the reshaped array') + [
                   ('the storage is kept as it is: same base, no allocation, no release (so the flat element sequence is preserved)', 'EXC == 0 && self->base_ == OLD(self->base_) && g_news == 0 && g_deletes == 0')],
          covers=['g_n0 > 1 && x0 != g_n0' if D > 1 else 'g_n0 > 1', '%s == 0' % Na], assigns=['*self'], objbits=12, timeout=900, unwind=4, cbmc_flags=['--no-pointer-check'], solvers=('cvc5', 'cadical'))
    Check('O%d_clear' % D, ['C06'], 'own', fn='w_O%d_clear' % D, params=['self'],
          wrapper=('void', 'AR<%d>* self' % D, 'self->clear();'),
          cxx={'self': ARR(D)}, ghosts=ghosts_fn(D), stubs=[NEW, DEL], mode='uf',
          requires=[' && '.join('0 <= %s && %s < SMALL && INR(%s)' % (n, n, f) for n, f in zip(na, fa)), is_canonical('self', D, na, fa), 'INOFF(%s)' % Na, 'self->base_ != 0 && g_block != 0'],
          lemmas=prod_lemmas(na, fa),
          ensures=[('clear() leaves an empty array with the layout of empty extensions', 'EXC == 0 && ' + ' && '.join(canonical('self', D, ['0']*D, ['0']*D))),
                   ('the storage is released exactly once (if there was any); nothing is allocated', 'g_news == 0 && (%s == 0 ? g_deletes == 0 : (g_deletes == 1 && g_deleted == (void*)OLD(self->base_)))' % Na)],
          covers=['g_n0 > 1', '%s == 0' % Na], assigns=['*self'], objbits=12, timeout=900, unwind=4, cbmc_flags=['--no-pointer-check'], solvers=('cvc5', 'cadical'))

# ---------------------------------------------------------------------------------------------------------------------
# assignment from a view of any layout:  array<double,D>::operator=(const_subarray<double,D,double*> const&)
#   equal extensions  -> exactly one view assignment (C05) of the source onto the whole target, storage untouched;
#   otherwise         -> a new array is built from the view (the O*_ctor_view skeleton: canonical layout of the source extents, fresh storage,
#                        one std::uninitialized_copy_n over elements() of the source view) and adopted; the old storage is released once.
for D in (1, 2, 3):
    na = ['g_n%d' % k for k in range(D)]; fa = ['g_f%d' % k for k in range(D)]; nb = ['g_m%d' % k for k in range(D)]; fb = ['g_e%d' % k for k in range(D)]
    Na, Nb = prod(na), prod(nb)
    effa = lambda k: ('(%s == 0 ? 0 : %s)' % (prod(na[k:]), fa[k]), '(%s == 0 ? 0 : %s + %s)' % (prod(na[k:]), fa[k], na[k]))
    effv = lambda k: ('(%s == 0 ? 0 : %s)' % (nb[k], fb[k]), '(%s == 0 ? 0 : %s + %s)' % (nb[k], fb[k], nb[k]))       # a view reports dimension k empty iff its own span is 0
    same_ext = ' && '.join('%s == %s && %s == %s' % (effa(k)[0], effv(k)[0], effa(k)[1], effv(k)[1]) for k in range(D))
    UCN = Stub(r'double\* std::uninitialized_copy_n<boost::multi::elements_iterator_t<double const\*, boost::multi::layout_t<%dl, long> >, long, double\*>\(.*' % D,
               record=[('g_cp_first', 0, EIc(D)), ('g_cp_n', 1, None), ('g_cp_dst', 2, None, 'ptr')], ret='g_cp_ret', count='g_cp_calls', optional=True,
               absent='int g_cp_calls;')
    VAS = Stub(r'.*boost::multi::subarray<double, %dl, double\*, boost::multi::layout_t<%dl, long> >::operator=(<[^(]*>)?\(boost::multi::const_subarray<double, %dl, double\*, boost::multi::layout_t<%dl, long> > const&\) &' % ((D,)*4),
               record=[('g_L', 0, MSUB(D)), ('g_R', 1, SUB(D))], count='g_as_calls', ret='g_as_ret')
    RAW = Stub(r'double\* std::uninitialized_copy_n<double( const)?\*, (unsigned )?long, double\*>\(.*', count='g_raw_calls', ret='g_raw_ret', optional=True,
               record=[('g_raw_first', 0, None, 'ptr'), ('g_raw_n', 1, None), ('g_raw_dst', 2, None, 'ptr')], absent='double *g_raw_first; I64 g_raw_n; double *g_raw_dst;')
    ii = ['g_i%d' % k for k in range(D)]
    in_range = ' && '.join('%s <= %s && %s < %s + %s' % (fb[k], ii[k], ii[k], fb[k], nb[k]) for k in range(D))
    lin = ' + '.join('MUL(%s - %s, %s)' % (ii[k], fb[k], prod(nb[k+1:]) if k < D-1 else '1') for k in range(D))
    addr = ' + '.join('(MUL(%s, %s) - %s)' % (ii[k], lp('v', k, 'stride_'), lp('v', k, 'offset_')) for k in range(D))
    same_view = lambda g, v, cast='': ' && '.join(['%s.base_ == %s->base_' % (g, v)] + ['%s.%s%s == %s' % (g, 'sub_.'*k, x, lp(v, k, x)) for k in range(D) for x in ('stride_', 'offset_', 'nelems_')])
    Check('O%d_assign_view' % D, ['C04', 'C19'], 'own', fn='w_O%d_assign_view' % D, params=['self', 'v'],
          wrapper=('void', 'AR<%d>* self, CS<%d> const* v' % (D, D), '*self = *v;'),
          cxx={'self': ARR(D), 'v': SUB(D)}, ghosts=ghosts_fn(D) + ghosts_fn(D, f='g_e', n='g_m') + [(I64, x) for x in ii], stubs=[NEW, DEL, UCN, VAS, RAW], mode='uf',
          requires=[' && '.join('0 <= %s && %s < SMALL && INR(%s)' % (n, n, f) for n, f in zip(na, fa)), is_canonical('self', D, na, fa), WF('v', D, f='g_e', n='g_m'),
                    '%s == 0 && %s == 1' % (lp('v', D, 'offset_'), lp('v', D, 'nelems_')), 'INOFF(%s) && INOFF(%s)' % (Na, Nb), ' && '.join('%s < SMALL' % n for n in nb),
                    ' && '.join('INOFF(%s) && INOFF(%s)' % (lp('v', k, 'nelems_'), lp('v', k, 'offset_')) for k in range(D)), 'self->base_ != 0 && v->base_ != 0 && g_block != 0 && PTR_SANE(v->base_)', ' && '.join('INR(%s)' % x for x in ii)],
          lemmas=prod_lemmas(na, fa) + prod_lemmas(nb, fb) + WF_lemmas('v', D, f='g_e', n='g_m'),
          ensures=canonical_ens('self', D, nb, fb, lambda k: '%s == 0' % nb[k], guard='EXC == 0 && !(%s)' % same_ext, what='the target') + [
                   ('[delegation] equal extensions: exactly one view assignment, nothing else', 'IMPLIES(EXC == 0 && %s, g_as_calls == 1 && g_cp_calls == 0 && g_raw_calls == 0 && g_news == 0 && g_deletes == 0)' % same_ext),
                   ('equal extensions: the view assignment writes the whole target (its base and layout in every dimension) from exactly the source view; storage and layout of the target are kept',
                    'IMPLIES(EXC == 0 && %s && g_as_calls == 1, %s && %s && self->base_ == OLD(self->base_) && %s)' % (same_ext, same_view('g_L', 'self'), same_view('g_R', 'v'), is_canonical('self', D, na, fa))),
                   ('[delegation] different extensions: the elements are copied by exactly one std::uninitialized_copy_n over the elements() range; no view assignment', 'IMPLIES(EXC == 0 && !(%s), g_cp_calls == 1 && g_as_calls == 0 && g_raw_calls == 0)' % same_ext),
                   ('a flat copy of the source storage (instead of the elements() range) is only used when, for every index tuple, the flat position of the element is its canonical linear index',
                    'IMPLIES(EXC == 0 && g_raw_calls >= 1 && %s, g_raw_calls == 1 && g_cp_calls == 0 && g_raw_n == %s && g_raw_dst == self->base_ && g_raw_first + (%s) == v->base_ + (%s))' % (in_range, Nb, lin, addr)),
                   ('different extensions: it receives elements().begin() of the source view (same base, same layout, position 0), the full count, the new storage',
                    'IMPLIES(EXC == 0 && !(%s) && g_cp_calls == 1, g_cp_first.n_ == 0 && %s && g_cp_n == %s && g_cp_dst == self->base_)' % (same_ext, same_range('g_cp_first', 'v', D), Nb)),
                   ('different extensions: storage for exactly num_elements() elements is obtained once; the old storage is released exactly once (if there was any)',
                    'IMPLIES(EXC == 0 && !(%s), %s && (%s == 0 ? g_deletes == 0 : (g_deletes == 1 && g_deleted == (void*)OLD(self->base_))))' % (same_ext, storage('self', Nb), Na))],
          covers=['EXC == 0 && %s && g_n0 > 1' % same_ext, 'EXC == 0 && !(%s) && g_m0 > 1 && g_n0 > 1' % same_ext, 'EXC == 0 && g_e0 != 0 && g_m0 > 0 && !(%s)' % same_ext],
          assigns=['*self'], objbits=12, timeout=1500, unwind=4, cbmc_flags=['--no-pointer-check'], solvers=('cvc5', 'cadical'), tier='quick' if D < 3 else 'thorough')
