/- Lemma schemas of /verif/lemmas/lemmas.h, proved for all integers (Int.tdiv / Int.tmod = C's truncating / and %).
   Checked by `lean Lemmas.lean` (Lean 4 core only, no Mathlib). -/
theorem L_DIST (a b s : Int) : (a+b)*s = a*s + b*s := Int.add_mul a b s
theorem L_DISTL (s a b : Int) : s*(a+b) = s*a + s*b := Int.mul_add s a b
theorem L_DISTSUB (a b s : Int) : (a-b)*s = a*s - b*s := Int.sub_mul a b s
theorem L_COMM (a b : Int) : a*b = b*a := Int.mul_comm a b
theorem L_ASSOC (a b c : Int) : a*(b*c) = (a*b)*c := (Int.mul_assoc a b c).symm
theorem L_MUL0 (a : Int) : a*0 = 0 ∧ 0*a = 0 := ⟨Int.mul_zero a, Int.zero_mul a⟩
theorem L_MUL1 (a : Int) : a*1 = a ∧ 1*a = a := ⟨Int.mul_one a, Int.one_mul a⟩
theorem L_MULNEG1 (a : Int) : a*(-1) = -a ∧ (-1)*a = -a := ⟨by omega, by omega⟩
theorem L_MULDIV (n s : Int) (h : s ≠ 0) : (n*s).tdiv s = n := Int.mul_tdiv_cancel n h
theorem L_MULREM (n s : Int) : (n*s).tmod s = 0 := Int.mul_tmod_left n s
theorem L_CANCEL (a b s : Int) (h : s ≠ 0) (e : a*s = b*s) : a = b := Int.eq_of_mul_eq_mul_right h e
theorem L_MULZERO (a s : Int) (h : s ≠ 0) : (a*s = 0) ↔ (a = 0) := by
  constructor
  · intro e; rcases Int.mul_eq_zero.mp e with h1 | h1
    · exact h1
    · exact absurd h1 h
  · intro e; rw [e, Int.zero_mul]
theorem L_MONO (p n s : Int) (hp : 0 ≤ p) (hpn : p < n) (hs : 0 < s) : 0 ≤ p*s ∧ p*s + s ≤ n*s := by
  constructor
  · exact Int.mul_nonneg hp (Int.le_of_lt hs)
  · have h1 : p + 1 ≤ n := hpn
    have h2 : (p+1)*s ≤ n*s := Int.mul_le_mul_of_nonneg_right h1 (Int.le_of_lt hs)
    rw [Int.add_mul, Int.one_mul] at h2
    exact h2
theorem L_MONOLE (p n s : Int) (h : p ≤ n) (hs : 0 ≤ s) : p*s ≤ n*s := Int.mul_le_mul_of_nonneg_right h hs
theorem L_NONNEG (a b : Int) (ha : 0 ≤ a) (hb : 0 ≤ b) : 0 ≤ a*b := Int.mul_nonneg ha hb
theorem L_POS (a b : Int) (ha : 0 < a) (hb : 0 < b) : 0 < a*b := Int.mul_pos ha hb
theorem L_DIVMOD (n s : Int) : n = (n.tdiv s)*s + n.tmod s := by
  have := Int.mul_tdiv_add_tmod n s
  rw [Int.mul_comm] at this; exact this.symm
theorem L_REMRANGE (n s : Int) (hs : 0 < s) (hn : 0 ≤ n) : 0 ≤ n.tmod s ∧ n.tmod s < s ∧ 0 ≤ n.tdiv s :=
  ⟨Int.tmod_nonneg s hn, Int.tmod_lt_of_pos n hs, Int.tdiv_nonneg hn (Int.le_of_lt hs)⟩
theorem L_DIVEXACT (n s : Int) (h : n.tmod s = 0) : (n.tdiv s)*s = n := by
  have := L_DIVMOD n s; rw [h, Int.add_zero] at this; exact this.symm
theorem L_DIVSELF (s : Int) (h : s ≠ 0) : s.tdiv s = 1 := Int.tdiv_self h
theorem L_DIV0 (s : Int) : (0:Int).tdiv s = 0 ∧ (0:Int).tmod s = 0 := ⟨Int.zero_tdiv s, Int.zero_tmod s⟩
theorem L_DIVSIGN (n s : Int) (hn : 0 ≤ n) (hs : 0 < s) : 0 ≤ n.tdiv s := Int.tdiv_nonneg hn (Int.le_of_lt hs)
theorem L_DIVADD (q r s : Int) (hs : 0 < s) (hr0 : 0 ≤ r) (hr : r < s) (hq : 0 ≤ q) :
    (q*s + r).tdiv s = q ∧ (q*s + r).tmod s = r := by
  have hn : 0 ≤ q*s + r := Int.add_nonneg (Int.mul_nonneg hq (Int.le_of_lt hs)) hr0
  rw [Int.tdiv_eq_ediv_of_nonneg hn, Int.tmod_eq_emod_of_nonneg hn]
  constructor
  · rw [Int.add_comm, Int.add_mul_ediv_right _ _ (Int.ne_of_gt hs), Int.ediv_eq_zero_of_lt hr0 hr, Int.zero_add]
  · rw [Int.add_comm, Int.add_mul_emod_self_right, Int.emod_eq_of_lt hr0 hr]
theorem L_DIVLE (n s : Int) (hn : 0 ≤ n) (_hs : 0 < s) : n.tdiv s ≤ n := by
  rw [Int.tdiv_eq_ediv_of_nonneg hn]; exact Int.ediv_le_self s hn
-- BitVec 64: the ring identities hold even under wrap-around
theorem B_DIST (a b s : BitVec 64) : (a+b)*s = a*s + b*s := BitVec.add_mul
theorem B_COMM (a b : BitVec 64) : a*b = b*a := BitVec.mul_comm a b
theorem B_ASSOC (a b c : BitVec 64) : a*(b*c) = (a*b)*c := (BitVec.mul_assoc a b c).symm
theorem L_SWAP (a b c : Int) : (a*b)*c = (a*c)*b := Int.mul_right_comm a b c
theorem L_MULNEG (a b : Int) : (-a)*b = -(a*b) ∧ b*(-a) = -(b*a) := ⟨Int.neg_mul a b, Int.mul_neg b a⟩
