#include <boost/multi/array.hpp>
#include <cstdio>
namespace multi = boost::multi;
int main() {
	multi::array<double, 1> v(multi::extensions_t<1>{0});
	auto&& ch = v.chunked(3);
	multi::array<double, 2> w({0, 5});
	auto&& ch2 = w.chunked(4);
	multi::array<double, 1> u(multi::extensions_t<1>{6}, 1.0);
	auto&& ch3 = u.chunked(3);
	using std::get;
	bool ok = ch.size() == 0 && get<1>(ch.sizes()) == 3 && ch2.size() == 0 && get<1>(ch2.sizes()) == 4 && get<2>(ch2.sizes()) == 5 && ch.num_elements() == 0 && ch2.num_elements() == 0
		&& ch3.size() == 2 && get<1>(ch3.sizes()) == 3 && &ch3[1][2] == &u[5];
	std::printf("%d\n", ok);
	return ok ? 0 : 1;
}
