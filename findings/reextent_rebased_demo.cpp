// Genuine defect (open, recorded in known_findings.json): reextent of an array whose index base is not zero.
//   array::reextent copies the common part with  tmp.apply(is) = this->apply(is);  slicing keeps the parent's index base, so the two
//   views have the extensions [0,c) (new, zero-based storage) and [f,f+c) (old, re-based storage):
//     * debug build : BOOST_MULTI_ASSERT(this->extensions() == other.extensions()) in subarray::operator= aborts;
//     * NDEBUG build: the element-wise copy goes through elements() of the re-based source view, whose positions are wrong for a non-zero
//                     index base (layout_t::operator() adds the offset instead of subtracting it), so the kept elements are wrong.
// build: g++ -std=c++17 -DNDEBUG -I/repo/include reextent_rebased_demo.cpp && ./a.out   -> prints MISMATCH lines, exit 1
//        g++ -std=c++17          -I/repo/include reextent_rebased_demo.cpp && ./a.out   -> assertion abort
#include <boost/multi/array.hpp>
#include <cstdio>
namespace multi = boost::multi;
int main() {
	int bad = 0;
	{   // 1-D, old extension [5,14), new extension [0,15): elements 5..13 are in both and must keep their values, the others are the fill value
		multi::array<double, 1> A(multi::extensions_t<1>{multi::index_extension{5, 14}});
		for(long j = 5; j < 14; ++j) { A[j] = static_cast<double>(j); }
		A.reextent(multi::extensions_t<1>{multi::index_extension{0, 15}}, 99.0);
		for(long j = 0; j < 15; ++j) {
			double const expect = (5 <= j && j < 14) ? static_cast<double>(j) : 99.0;
			if(A[j] != expect) { std::printf("MISMATCH 1-D: A[%ld] = %g, expected %g\n", j, A[j], expect); bad = 1; }
		}
	}
	{   // 2-D, old extensions [0,1) x [-8,7), new {1,6}
		multi::array<double, 2> A(multi::extensions_t<2>{multi::index_extension{0, 1}, multi::index_extension{-8, 7}});
		for(long j = -8; j < 7; ++j) { A[0][j] = static_cast<double>(j); }
		A.reextent({1, 6}, 99.0);
		for(long j = 0; j < 6; ++j) {
			if(A[0][j] != static_cast<double>(j)) { std::printf("MISMATCH 2-D: A[0][%ld] = %g, expected %g\n", j, A[0][j], static_cast<double>(j)); bad = 1; }
		}
	}
	std::printf(bad ? "FAIL\n" : "PASS\n");
	return bad;
}
