// Native demonstrations (real library, g++) of the lifecycle defects reported by the engine-B checks (known_findings.json).
// usage: ./a.out <scenario>   ; prints what happened; exit 0 = defect reproduced, 1 = not reproduced
#include <boost/multi/array.hpp>
#include <cstdio>
#include <cstdlib>
#include <map>
#include <new>
#include <stdexcept>
namespace multi = boost::multi;

static int g_fail_alloc_at = -1, g_allocs = 0, g_fail_elem_at = -1, g_elem_ops = 0, g_live = 0, g_foreign_dealloc = 0, g_outstanding = 0;
static std::map<void*, int> g_owner;   // block -> allocator id
struct Y;
struct X {
	int v = 0;
	X() { if(g_elem_ops++ == g_fail_elem_at) throw std::runtime_error("ctor"); ++g_live; }
	X(X const& o) : v{o.v} { if(g_elem_ops++ == g_fail_elem_at) throw std::runtime_error("copy"); ++g_live; }
	X(struct Y const& o);
	auto operator=(X const& o) -> X& { if(g_elem_ops++ == g_fail_elem_at) throw std::runtime_error("assign"); v = o.v; return *this; }
	~X() { --g_live; }
};
struct Y { int v = 0; Y() { ++g_live; } Y(Y const& o) : v{o.v} { ++g_live; } ~Y() { --g_live; } };   // a second element type, convertible to X
template<class T, bool P = false> struct Al {
	using value_type = T; int id;
	using propagate_on_container_copy_assignment = std::integral_constant<bool, P>;
	using propagate_on_container_move_assignment = std::integral_constant<bool, P>;
	using propagate_on_container_swap = std::integral_constant<bool, P>;
	template<class U> struct rebind { using other = Al<U, P>; };
	explicit Al(int i = 0) : id{i} {}
	template<class U> Al(Al<U, P> const& o) : id{o.id} {}
	auto allocate(std::size_t n) -> T* { if(g_allocs++ == g_fail_alloc_at) throw std::bad_alloc{}; auto* p = static_cast<T*>(::operator new(n*sizeof(T))); g_owner[p] = id; ++g_outstanding; return p; }
	void deallocate(T* p, std::size_t) { if(g_owner[p] != id) { ++g_foreign_dealloc; } --g_outstanding; ::operator delete(p); }
	friend auto operator==(Al const& a, Al const& b) -> bool { return a.id == b.id; }
	friend auto operator!=(Al const& a, Al const& b) -> bool { return a.id != b.id; }
};
X::X(Y const& o) : v{o.v} { if(g_elem_ops++ == g_fail_elem_at) throw std::runtime_error("convert"); ++g_live; }
int main(int argc, char** argv) {
	int sc = argc > 1 ? std::atoi(argv[1]) : 0;
	if(sc == 1) {  // sizing constructor: element construction throws -> block leaked
		g_fail_elem_at = 2;
		try { multi::array<X, 1, Al<X>> a(multi::extensions_t<1>{4}, Al<X>{1}); } catch(std::exception&) {}
		std::printf("ctor failure: outstanding blocks = %d, live elements = %d\n", g_outstanding, g_live); return (g_outstanding != 0 || g_live != 0) ? 0 : 1;
	}
	if(sc == 2) {  // copy constructor: element copy throws -> block leaked
		multi::array<X, 1, Al<X>> b(multi::extensions_t<1>{4}, Al<X>{1}); g_elem_ops = 0; g_fail_elem_at = 2;
		try { multi::array<X, 1, Al<X>> a(b); } catch(std::exception&) {}
		std::printf("copy ctor failure: outstanding blocks = %d (1 expected), live = %d (4 expected)\n", g_outstanding, g_live); return (g_outstanding != 1 || g_live != 4) ? 0 : 1;
	}
	if(sc == 3) {  // copy assignment to different extents: allocation throws -> the array claims elements it does not have
		multi::array<X, 1, Al<X>> b(multi::extensions_t<1>{4}, Al<X>{1}); multi::array<X, 1, Al<X>> a(multi::extensions_t<1>{2}, Al<X>{1});
		g_fail_alloc_at = g_allocs;
		try { a = b; } catch(std::exception&) {}
		std::printf("copy assign failure: a.size() = %ld, a.base() = %p, outstanding = %d (1 expected), live = %d (4 expected)\n", long(a.size()), static_cast<void*>(a.base()), g_outstanding, g_live);
		bool bad = a.size() != 0 && g_outstanding == 1;   // a claims 4 elements but owns no block
		if(bad) { new(&a) multi::array<X, 1, Al<X>>(); }   // avoid crashing in the destructor of the inconsistent array
		return bad ? 0 : 1;
	}
	if(sc == 4) {  // move assignment between unequal non-propagating allocators -> block released through the wrong allocator
		{ multi::array<X, 1, Al<X>> b(multi::extensions_t<1>{4}, Al<X>{2}); multi::array<X, 1, Al<X>> a(multi::extensions_t<1>{2}, Al<X>{1}); a = std::move(b); }
		std::printf("move assign, unequal non-propagating allocators: foreign deallocations = %d\n", g_foreign_dealloc); return g_foreign_dealloc ? 0 : 1;
	}
	if(sc == 5) {  // copy assignment, same extents, propagate_on_container_copy_assignment, unequal allocators -> old block released through the new allocator
		{ multi::array<X, 1, Al<X, true>> b(multi::extensions_t<1>{3}, Al<X, true>{2}); multi::array<X, 1, Al<X, true>> a(multi::extensions_t<1>{3}, Al<X, true>{1}); a = b; }
		std::printf("copy assign, same extents, POCCA, unequal allocators: foreign deallocations = %d\n", g_foreign_dealloc); return g_foreign_dealloc ? 0 : 1;
	}
	if(sc == 6) {  // reextent: element assignment throws inside a noexcept assignment -> std::terminate (exception never reaches the caller)
		std::set_terminate([] { std::printf("reextent: std::terminate called (exception did not reach the caller)\n"); std::_Exit(0); });
		multi::array<X, 1, Al<X>> a(multi::extensions_t<1>{3}, Al<X>{1}); g_elem_ops = 0; g_fail_elem_at = 5;   // 4 value-constructions, then the 2nd element assignment throws
		try { a.reextent(multi::extensions_t<1>{4}); } catch(std::exception&) { std::printf("exception reached the caller\n"); return 1; }
		return 1;
	}
	if(sc == 7) {  // reextent: value construction of the new block throws -> new block leaked
		multi::array<X, 1, Al<X>> a(multi::extensions_t<1>{3}, Al<X>{1}); g_elem_ops = 0; g_fail_elem_at = 1;
		try { a.reextent(multi::extensions_t<1>{4}); } catch(std::exception&) {}
		std::printf("reextent failure: outstanding = %d (1 expected), live = %d (3 expected)\n", g_outstanding, g_live); return (g_outstanding != 1 || g_live != 3) ? 0 : 1;
	}
	if(sc == 8) {  // FIXED by /repo 8d7d439: reextent to an extent with a zero inner size used to abort on a library assertion in debug builds
		multi::array<int, 2> a({2, 2}, 7); a.reextent({1, 0}); std::printf("reextent({1,0}) returned, size %ld\n", long(a.size())); return 1;
	}
	if(sc == 9) {  // iterator-range constructor: element copy throws -> block leaked (same defect class as scenario 2)
		multi::array<X, 1, Al<X>> b(multi::extensions_t<1>{4}, Al<X>{1}); g_elem_ops = 0; g_fail_elem_at = 2;
		try { multi::array<X, 1, Al<X>> a(b.begin(), b.end(), Al<X>{1}); } catch(std::exception&) {}
		std::printf("range ctor failure: outstanding blocks = %d (1 expected), live = %d (4 expected)\n", g_outstanding, g_live); return (g_outstanding != 1 || g_live != 4) ? 0 : 1;
	}
	if(sc == 10) {  // converting assignment (array<Y> -> array<X>) to different extents: the temporary is built with a default-constructed allocator and its block is adopted by `a` -> released through a's (unequal) allocator
		{ multi::array<Y, 1, Al<Y>> b(multi::extensions_t<1>{4}, Al<Y>{2}); multi::array<X, 1, Al<X>> a(multi::extensions_t<1>{2}, Al<X>{1}); a = b; }
		std::printf("converting assign: foreign deallocations = %d\n", g_foreign_dealloc); return g_foreign_dealloc ? 0 : 1;
	}
	if(sc == 11) {  // converting assignment: an element conversion throws -> the block of the temporary is leaked
		multi::array<Y, 1, Al<Y>> b(multi::extensions_t<1>{4}, Al<Y>{0}); multi::array<X, 1, Al<X>> a(multi::extensions_t<1>{2}, Al<X>{0}); g_elem_ops = 0; g_fail_elem_at = 2;
		try { a = b; } catch(std::exception&) {}
		std::printf("converting assign failure: outstanding blocks = %d (2 expected), live = %d (6 expected)\n", g_outstanding, g_live); return (g_outstanding != 2 || g_live != 6) ? 0 : 1;
	}
	return 2;
}
