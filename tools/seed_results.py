#!/usr/bin/env python3
"""seed_results.py <seed_matrix log> [<thorough log>]: turn the output of tools/seed_matrix.sh into seeded/results.json and a markdown table
(printed) for DESIGN.md section 7"""
import sys, re, json, os
root = os.path.join(os.path.dirname(os.path.abspath(__file__)), '..', 'seeded')
def parse(path, tier):
    out = {}
    for ln in open(path):
        m = re.match(r'(C\d\d-\d) prop=(C\d\d) rc=(\d+) viol=(\d+) undecided=(\d+) broken=(\d+) caught_by=(.*)', ln.strip())
        if not m: continue
        sid, prop, rc, viol, und, brk, by = m.groups()
        by = sorted({x for x in by.split(',') if x})
        out[sid] = dict(prop=prop, exit=int(rc), violations=int(viol), undecided=int(und), broken=int(brk), caught_by=by, tier=tier)
    return out
res = parse(sys.argv[1], 'quick')
if len(sys.argv) > 2:
    for sid, r in parse(sys.argv[2], 'thorough').items():
        if res.get(sid, {}).get('exit') != 1: res[sid] = r
rebased = {'C02-1', 'C06-1', 'C06-2', 'C08-2', 'C11-2'}   # ported to the current HEAD after fix: commits changed their context
notes = json.load(open(os.path.join(root, 'notes.json'))) if os.path.exists(os.path.join(root, 'notes.json')) else {}
results = {}
rows = []
for sid in sorted(res):
    r = res[sid]; own = sid.split('-')[0]
    verdict = 'caught' if r['exit'] == 1 else ('undecided (exit 2)' if r['exit'] == 2 else 'missed')
    results[sid] = dict(command=('tools/seed_matrix.sh %s   (= ./check %s --tier quick against a scratch copy of /repo/include with the patch applied)' % (sid, r['prop'])) if r['tier'] == 'quick' else ('git -C /repo apply seeded/%s/patch.diff && ./check %s --tier thorough --only %s; git -C /repo checkout -- .' % (sid, r['prop'], ','.join(r['caught_by']))),
                        exit=r['exit'], verdict=verdict, caught_by=r['caught_by'], rebased=sid in rebased,
                        note=notes.get(sid, '') + ('' if r['prop'] == own else ' [property %s is not claimed; run against the checks of %s, which cover the changed function]' % (own, r['prop'])))
    by = ', '.join(r['caught_by'][:6]) + (' … (%d checks)' % len(r['caught_by']) if len(r['caught_by']) > 6 else '')
    rows.append('| %s | %s (%s) | %s | %s | %s |' % (sid, r['prop'], r['tier'], verdict, by or '—', notes.get(sid, '')))
json.dump(results, open(os.path.join(root, 'results.json'), 'w'), indent=1)
print('| seed | checked with | verdict | checks reporting a VIOLATION | note |')
print('|---|---|---|---|---|')
print('\n'.join(rows))
