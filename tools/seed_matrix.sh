#!/bin/bash
# usage: seed_matrix.sh [seed ...]   -- runs the quick check of the seeded property against a scratch copy of /repo with the seed applied.
# Never touches /repo.  Output: one line per seed: seed, exit code, #VIOLATION, #UNDECIDED, #BROKEN, first failing check.
cd "$(dirname "$0")/.."
SEEDS="$@"; [ -z "$SEEDS" ] && SEEDS=$(ls seeded | sort)
for s in $SEEDS; do
  p=${s%%-*}
  T=$(mktemp -d /tmp/seedrun.XXXX); mkdir -p $T/repo; cp -r /repo/include $T/repo/
  if ! (cd $T/repo && patch -p1 -s < /verif/seeded/$s/patch.diff >/dev/null 2>&1); then echo "$s patch-does-not-apply"; rm -rf $T; continue; fi
  out=$(VERIF_REPO=$T/repo python3 tools/runner.py $p --tier ${TIER:-quick} -j ${J:-6} --noevidence 2>&1); rc=$?
  echo "$s rc=$rc viol=$(echo "$out" | grep -c '^VIOLATION') undecided=$(echo "$out" | grep -c '^UNDECIDED') broken=$(echo "$out" | grep -c '^BROKEN') first=$(echo "$out" | grep -E ' (violation|undecided|broken) ' | head -3 | awk '{print $1":"$2}' | tr '\n' ' ')"
  rm -rf $T
done
