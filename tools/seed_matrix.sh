#!/bin/bash
# usage: seed_matrix.sh [seed ...]   -- runs the registered quick check of the seeded property against a scratch copy of /repo's headers with
# the seed applied (VERIF_REPO=<copy>; /repo itself is never touched).  One line per seed: exit code, verdict counts, the checks that report a violation.
# Seeds of properties that are not claimed (C11) are run against the property whose checks cover the changed function (override below).
cd "$(dirname "$0")/.."
SEEDS="$@"; [ -z "$SEEDS" ] && SEEDS=$(ls seeded | grep '^C[0-9][0-9]-[0-9]$' | sort)
for s in $SEEDS; do
  p=${s%%-*}
  # (no override needed any more: every seeded property is claimed)
  T=$(mktemp -d /tmp/seedrun.XXXX); mkdir -p $T/repo; cp -r /repo/include $T/repo/
  if ! (cd $T/repo && patch -p1 -s < /verif/seeded/$s/patch.diff >/dev/null 2>&1); then echo "$s patch-does-not-apply"; rm -rf $T; continue; fi
  out=$(VERIF_REPO=$T/repo python3 tools/runner.py $p --tier ${TIER:-quick} -j ${J:-9} --noevidence 2>&1); rc=$?
  echo "$s prop=$p rc=$rc viol=$(echo "$out" | grep -c '^VIOLATION') undecided=$(echo "$out" | grep -c '^UNDECIDED') broken=$(echo "$out" | grep -c '^BROKEN') caught_by=$(echo "$out" | grep -E '^[A-Za-z0-9_@]+ +violation ' | awk '{print $1}' | tr '\n' ',')"
  rm -rf $T
done
