#!/usr/bin/env python3
"""vf: contract-verification framework for boost-multi (see DESIGN.md).

A *Check* is one function of /repo under contract.  The framework
  1. generates the instantiation unit (one `extern "C"` one-line wrapper per check, no library logic),
  2. compiles it with clang++-14 to LLVM IR (+ record layouts), runs sroa/mem2reg/simplifycfg,
  3. translates the closure of the function to C (tools/ll2c.py), attaches the contract,
  4. runs goto-cc / goto-instrument --dfcc --enforce-contract / cbmc,
  5. classifies every obligation, replays counterexamples natively against the g++-compiled real code.
"""
import os, re, sys, json, subprocess, time, shutil, tempfile, hashlib, concurrent.futures as cf
sys.path.insert(0, os.path.dirname(os.path.abspath(__file__)))
import ll2c, layouts
from ll2c import Named, Lit, Arr, Ptr, Int, Flt, Void, Unsupported

VERIF = os.path.dirname(os.path.dirname(os.path.abspath(__file__)))
REPO = os.environ.get('VERIF_REPO', '/repo')
INC = os.path.join(REPO, 'include')
CLANG = 'clang++-14'; OPT = 'opt-14'; CXXFILT = 'c++filt'
CBMC_MEM_KB = 12*1024*1024

class Broken(Exception):
    """extraction / tool problem: exit 2, never a violation"""

# ------------------------------------------------------------------ specification objects
CHECKS = {}
GROUPS = {}
POST = []      # hooks run after all contract files are loaded

class Group:
    """an instantiation unit"""
    def __init__(s, name, includes, prelude='', profile='S', flags=(), cut=(), noinline=(), libs=()):
        s.name = name; s.includes = includes; s.prelude = prelude; s.profile = profile; s.flags = list(flags); s.cut = list(cut)
        s.noinline = list(noinline); s.libs = list(libs)
        GROUPS[name] = s

class Stub:
    """assumed-contract stand-in for an external / library-algorithm function cut out of the closure.
    record: [(ghost name, parameter index, C++ record name or None)] -- ghost copies of the arguments (pointers to structs are copied by value)
    ret: name of a non-deterministic ghost returned (or None for void);  count: ghost call counter;  body: extra C statements"""
    def __init__(s, fn_re, record=(), ret=None, count=None, body='', only_first=False, decl='', ghosts=(), optional=False, absent=''):
        s.fn_re = fn_re; s.record = list(record); s.ret = ret; s.count = count; s.body = body; s.only_first = only_first
        s.decl = decl; s.ghosts = list(ghosts)   # extra C declarations / names of extra ghost objects the body writes (added to the assigns clause)
        s.optional = optional; s.absent = absent   # absent: C declarations of the record ghosts to emit when an optional stub's function does not occur in the tree

class Check:
    def __init__(s, id, props, group, params, wrapper, fn=None, cxx=None, ghosts=(), requires=(), lemmas=(), ensures=(),
                 assigns=None, mode='exact', setup='', tier='quick', fn_re=None, replace=(), loops=None, decl=None,
                 post='', misuse=False, covers=(), stubs=(), reject_ok=False, extra_roots=(), bounded='', solvers=('cadical', 'minisat'), cbmc_flags=(), timeout=600, note='', unwind=None, ret_cxx=None, native=True, objbits=None, config='debug'):
        assert id not in CHECKS, id
        s.id = id; s.props = list(props); s.group = group; s.fn = fn; s.fn_re = fn_re; s.params = list(params)
        s.wrapper = wrapper            # (ret_cxx_type, 'cxx param list', 'cxx body')
        s.cxx = dict(cxx or {})        # var -> C++ record name (for member-path resolution)
        s.ghosts = list(ghosts)        # [(ctype, name)]
        s.requires = list(requires); s.lemmas = list(lemmas)
        s.ensures = list(ensures)      # [(label, expr)]
        s.assigns = assigns            # None = no assigns clause, else list of targets
        s.mode = mode; s.setup = setup; s.tier = tier; s.replace = list(replace); s.loops = loops or {}
        s.decl = decl or {}; s.post = post; s.misuse = misuse; s.cbmc_flags = list(cbmc_flags); s.timeout = timeout
        s.covers = list(covers); s.stubs = list(stubs); s.reject_ok = reject_ok; s.extra_roots = list(extra_roots); s.bounded = bounded; s.solvers = list(solvers); s.note = note; s.unwind = unwind; s.native = native; s.objbits = objbits; s.config = config
        CHECKS[id] = s

# ------------------------------------------------------------------ helpers
def run(cmd, timeout=None, mem_kb=None, cwd=None, stdin=None):
    def pre():
        import resource
        if mem_kb: resource.setrlimit(resource.RLIMIT_AS, (mem_kb*1024, mem_kb*1024))
        os.setsid()
    t0 = time.time()
    p = subprocess.Popen(cmd, stdout=subprocess.PIPE, stderr=subprocess.PIPE, cwd=cwd, preexec_fn=pre, text=True,
                         stdin=subprocess.PIPE if stdin is not None else None)
    try:
        out, err = p.communicate(stdin, timeout=timeout)
    except subprocess.TimeoutExpired:
        try: os.killpg(p.pid, 9)
        except Exception: pass
        out, err = p.communicate()
        return 124, out, err, time.time()-t0
    return p.returncode, out, err, time.time()-t0

def run_portfolio(cmds, timeout=None, mem_kb=None):
    """run several equivalent commands concurrently (solver portfolio); first one to finish with rc in ok_rcs wins"""
    import tempfile
    def pre():
        import resource
        if mem_kb: resource.setrlimit(resource.RLIMIT_AS, (mem_kb*1024, mem_kb*1024))
        os.setsid()
    t0 = time.time(); procs = []
    for cmd in cmds:
        fo = tempfile.TemporaryFile(mode='w+'); fe = tempfile.TemporaryFile(mode='w+')
        procs.append((subprocess.Popen(cmd, stdout=fo, stderr=fe, preexec_fn=pre, text=True), fo, fe, cmd))
    winner = None
    while winner is None:
        for pr in procs:
            rc = pr[0].poll()
            if rc is not None and rc in (0, 10): winner = pr; break
        if winner is None and all(pr[0].poll() is not None for pr in procs): winner = procs[0]; break
        if winner is None and timeout and time.time() - t0 > timeout: break
        if winner is None: time.sleep(0.1)
    for pr in procs:
        if pr[0].poll() is None:
            try: os.killpg(pr[0].pid, 9)
            except Exception: pass
            pr[0].wait()
    if winner is None: return 124, '', '', time.time()-t0, None
    winner[1].seek(0); winner[2].seek(0)
    return winner[0].returncode, winner[1].read(), winner[2].read(), time.time()-t0, winner[3]

_demangle_cache = {}
def demangle(names):
    need = [n for n in names if n not in _demangle_cache]
    if need:
        rc, out, err, _ = run([CXXFILT], stdin='\n'.join(need) + '\n')
        res = out.split('\n')
        for n, d in zip(need, res): _demangle_cache[n] = d
    return [_demangle_cache[n] for n in names]

# ------------------------------------------------------------------ instantiation units
class Inst:
    """compiled instantiation unit of one group in one build configuration"""
    def __init__(s, group, checks, workdir, config='debug'):
        s.group = group; s.checks = checks; s.dir = os.path.join(workdir, 'inst_%s_%s' % (group.name, config)); s.config = config
        os.makedirs(s.dir, exist_ok=True)
        s.module = None; s.lay = None; s.native_obj = None
    def source(s):
        g = s.group
        out = ['// generated instantiation unit: wrappers only, no library logic']
        out += ['#include <%s>' % i for i in g.includes]
        out += ['#include <new>', 'namespace multi = boost::multi;', g.prelude, 'extern "C" {']
        for c in s.checks:
            if c.wrapper is None: continue
            ret, params, body = c.wrapper
            out.append('%s w_%s(%s){ %s }' % (ret, c.id, params, body))
        out.append('}')
        return '\n'.join(out) + '\n'
    def cfgflags(s):
        return {'debug': [], 'ndebug': ['-DNDEBUG'], 'assert_disable': ['-DBOOST_MULTI_ASSERT_DISABLE']}[s.config]
    def build(s):
        src = os.path.join(s.dir, 'inst.cpp'); open(src, 'w').write(s.source())
        ll = os.path.join(s.dir, 'inst.ll')
        common = ['-std=c++17', '-I' + INC, '-fno-access-control', '-fno-discard-value-names', '-w'] + s.group.flags + s.cfgflags()
        cmd = [CLANG] + common + ['-O0', '-Xclang', '-disable-O0-optnone', '-S', '-emit-llvm', '-Xclang', '-fdump-record-layouts', src, '-o', ll]
        rc, out, err, dt = run(cmd, timeout=900)
        if rc != 0 or not os.path.exists(ll):
            raise Broken('instantiation unit %s does not compile (clang):\n%s' % (s.group.name, (err or out)[-3000:]))
        s.lay = layouts.Layouts(out)
        ll2 = os.path.join(s.dir, 'inst.s.ll')
        if s.group.profile == 'S':
            rc, out, err, _ = run([OPT, '-S', '-passes=sroa,mem2reg,simplifycfg', ll, '-o', ll2], timeout=600)
        else:
            # profile O: the O1 pipeline of LLVM on the same IR; functions matching group.noinline (string/exception plumbing) are kept out of line
            if True:
                rx = [re.compile(x) for x in s.group.noinline]; lines = open(ll).read().split('\n')
                for i, ln in enumerate(lines):
                    if ln.startswith('attributes #'): lines[i] = ln.replace(' noinline', '')     # clang -O0 marks every function noinline
                for i, ln in enumerate(lines):
                    if ln.startswith('define '):
                        mm = re.search(r'@("[^"]*"|[-a-zA-Z$._0-9]+)\(', ln)
                        if mm and any(r.search(mm.group(1)) or r.search(demangle([mm.group(1).strip('"')])[0]) for r in rx):
                            m2 = list(re.finditer(r' #\d+', ln))
                            if m2: lines[i] = ln[:m2[-1].start()] + ' noinline' + ln[m2[-1].start():]
                open(ll, 'w').write('\n'.join(lines))
            # profile I: inlining + scalar replacement + common-subexpression elimination only -- no instcombine / reassociate, so products keep the
            # operand order and association of the source (matters for UF-64 proofs, where * is uninterpreted up to the listed lemma instances)
            passes = 'default<O1>' if s.group.profile == 'O' else 'cgscc(inline),function(sroa,early-cse,simplifycfg,dce),globaldce'
            rc, out, err, _ = run([OPT, '-S', '-passes=' + passes, ll, '-o', ll2], timeout=900)
        if rc != 0: raise Broken('opt failed: ' + err[-2000:])
        ll = ll2
        s.module = ll2c.parse_module(open(ll).read())
        names = list(s.module.funcs)
        dem = demangle([n[1:].strip('"') for n in names])
        s.by_dem = {}
        for n, d in zip(names, dem): s.by_dem.setdefault(d, []).append(n)
        s.dem = dict(zip(names, dem))
        return s
    def build_native(s):
        """g++ (the test suite's compiler) object of the same instantiation unit: the replay target"""
        if s.native_obj: return s.native_obj
        src = os.path.join(s.dir, 'inst.cpp'); obj = os.path.join(s.dir, 'inst.native.o')
        cmd = ['g++', '-std=c++17', '-I' + INC, '-fno-access-control', '-w', '-O0', '-c', src, '-o', obj] + s.group.flags + s.cfgflags()
        rc, out, err, _ = run(cmd, timeout=900)
        if rc != 0: raise Broken('g++ cannot compile instantiation unit %s:\n%s' % (s.group.name, err[-3000:]))
        s.native_obj = obj; return obj
    def find(s, check):
        if check.fn_re:
            r = re.compile(check.fn_re); hits = [n for n, d in s.dem.items() if r.fullmatch(d)]
        else:
            hits = s.by_dem.get(check.fn, [])
        if len(hits) != 1:
            near = [d for d in s.dem.values() if check.fn and check.fn.split('(')[0].split('::')[-1] in d][:8]
            raise Broken("check %s: function '%s' matches %d definitions in the IR of group %s (renamed/removed?) near: %s"
                         % (check.id, check.fn or check.fn_re, len(hits), s.group.name, near))
        return hits[0]

# ------------------------------------------------------------------ expression rewriting
class Binder:
    def __init__(s, inst, check, gen, func):
        s.inst = inst; s.c = check; s.g = gen; s.f = func
        if len(check.params) != len(func.params):
            raise Broken('check %s: %d parameter names for %d IR parameters (%s)' % (check.id, len(check.params), len(func.params),
                         [repr(t) for t, _ in func.params]))
        s.extra_types = {}; s.extra_cxx = {}
        s.ptype = {n: t for n, (t, _) in zip(check.params, func.params)}
        s.irname = {n: 'v_' + ll2c.cname(irn) for n, (_, irn) in zip(check.params, func.params)}
    def resolve_members(s, e):
        """var->a.b.c  (real C++ member names)  ==>  var->f0.f1 (fields of the translated struct)"""
        def one(var, path, arrow):
            rec = s.c.cxx.get(var) or s.extra_cxx.get(var)
            if rec is None: return None
            if var == 'RET': t = s.f.ret
            elif var in s.ptype:
                t = s.ptype[var]
                if not isinstance(t, Ptr): raise Broken('%s: %s is not a pointer parameter' % (s.c.id, var))
                t = t.to
            else:
                t = s.extra_types.get(var)
                if t is None: raise Broken('%s: no LLVM type for %s' % (s.c.id, var))
            try:
                off, node = s.inst.lay.offset(rec, path.split('.'))
                stop = None
                if node.children: stop = s.inst.lay.sizeof(node.type) if layouts.norm(node.type) in s.inst.lay.rec else None
                cp = layouts.c_path(s.g.dl, t, off, stop)
            except layouts.LayoutError as ex:
                raise Broken('check %s: %s' % (s.c.id, ex))
            return cp
        def repl(m):
            var, arrow, path = m.group(1), m.group(2), m.group(3)
            cp = one(var, path, arrow)
            if cp is None: return m.group(0)
            return var + ('->' + cp[1:] if arrow == '->' else cp)
        names = '|'.join(re.escape(v) for v in list(s.c.cxx) + list(s.extra_cxx))
        if not names: return e
        return re.sub(r'\b(%s)(->|\.)([A-Za-z_]\w*(?:#\d+)?(?:\.[A-Za-z_]\w*(?:#\d+)?)*)' % names, repl, e)
    def for_contract(s, e):
        e = s.resolve_members(e)
        e = re.sub(r'\bRET\b', '__CPROVER_return_value', e)
        e = re.sub(r'\bOLD\(', '__CPROVER_old(', e)
        for n, irn in s.irname.items():
            e = re.sub(r'\b%s\b' % re.escape(n), irn, e)
        return e
    def for_harness(s, e):
        return s.resolve_members(e)

# ------------------------------------------------------------------ one check
ARITH_H = r'''
#ifdef LL2C_NATIVE
static int OVF;
static I64 nat_mul(I64 a, I64 b){ I64 r; if(__builtin_mul_overflow(a,b,&r)) OVF=1; return r; }
static I64 nat_div(I64 a, I64 b){ if(b==0 || (a==INT64_MIN && b==-1)){ OVF=1; return 0;} return a/b; }
static I64 nat_rem(I64 a, I64 b){ if(b==0 || (a==INT64_MIN && b==-1)){ OVF=1; return 0;} return a%b; }
#define MUL(a,b) nat_mul((a),(b))
#define DIV(a,b) nat_div((a),(b))
#define REM(a,b) nat_rem((a),(b))
#elif defined(ARITH_UF)
#define UF_MUL(a,b)  __CPROVER_uninterpreted_mul((a),(b))
#define UF_SDIV(a,b) __CPROVER_uninterpreted_sdiv((a),(b))
#define UF_SREM(a,b) __CPROVER_uninterpreted_srem((a),(b))
#define MUL(a,b) UF_MUL(a,b)
#define DIV(a,b) UF_SDIV(a,b)
#define REM(a,b) UF_SREM(a,b)
#elif defined(ARITH_NARROW)
/* bounded cross-check: bit-precise multiply/divide on NARROW_K-bit operands (assumed in range), 64-bit everywhere else */
typedef signed __CPROVER_bitvector[2*ARITH_NARROW] NW;
static inline I64 NARROW_MUL(I64 a, I64 b){ __CPROVER_assume(-(1LL<<(ARITH_NARROW-1)) < a && a < (1LL<<(ARITH_NARROW-1)) && -(1LL<<(ARITH_NARROW-1)) < b && b < (1LL<<(ARITH_NARROW-1))); return (I64)((NW)a * (NW)b); }
static inline I64 NARROW_SDIV(I64 a, I64 b){ __CPROVER_assume(-(1LL<<(ARITH_NARROW-1)) < a && a < (1LL<<(ARITH_NARROW-1)) && -(1LL<<(ARITH_NARROW-1)) < b && b < (1LL<<(ARITH_NARROW-1))); __CPROVER_assert(b != 0, "division by zero (narrow)"); __CPROVER_assume(b != 0); return (I64)((NW)a / (NW)b); }
static inline I64 NARROW_SREM(I64 a, I64 b){ __CPROVER_assume(-(1LL<<(ARITH_NARROW-1)) < a && a < (1LL<<(ARITH_NARROW-1)) && -(1LL<<(ARITH_NARROW-1)) < b && b < (1LL<<(ARITH_NARROW-1))); __CPROVER_assert(b != 0, "division by zero (narrow)"); __CPROVER_assume(b != 0); return (I64)((NW)a % (NW)b); }
#define MUL(a,b) NARROW_MUL((a),(b))
#define DIV(a,b) NARROW_SDIV((a),(b))
#define REM(a,b) NARROW_SREM((a),(b))
#else
#define MUL(a,b) ((a)*(b))
#define DIV(a,b) ((a)/(b))
#define REM(a,b) ((a)%(b))
#endif
#ifndef LL2C_NATIVE
#define LIB_ASSERT_FAIL(msg) do{ __CPROVER_assert(0, msg); __CPROVER_assume(0); }while(0)
#endif
#ifdef LL2C_NATIVE
#define PTR_SANE(p) 1
#else
/* the symbolic base pointer sits well inside CBMC's offset range (48 bits even with --object-bits 16), so that +-2^43 bytes never wrap (an artefact of its pointer encoding, not of the code) */
#define PTR_SANE(p) ((p) != 0 && (I64)__CPROVER_POINTER_OFFSET(p) >= (1LL<<44) && (I64)__CPROVER_POINTER_OFFSET(p) < (1LL<<45))
#endif
#define IMPLIES(a,b) (!(a) || (b))
#define BIG (1LL<<40)
#define SMALL (1LL<<30)
#define MAX1(x) ((x) > 1 ? (x) : 1)
#define INR(x) (-BIG < (x) && (x) < BIG)
#define INOFF(x) (-(1LL<<40) < (x) && (x) < (1LL<<40))
'''

def lemma_header():
    return open(os.path.join(VERIF, 'lemmas', 'lemmas.h')).read()

class Result:
    def __init__(s, check, mode):
        s.check = check; s.mode = mode; s.status = 'error'; s.obligations = []; s.time = 0.0; s.reason = ''
        s.canary = None; s.covers = []; s.failed = []; s.inputs = None; s.fn = None; s.cfile = None; s.nfuncs = 0; s.cut = []; s.externals = []
        s.cmd = ''

def c_escape(sx):
    return sx.replace('\\', '\\\\').replace('"', '\\"')

class Runner:
    def __init__(s, workdir, keep=False):
        s.work = workdir; s.insts = {}; s.keep = keep
    def inst(s, group, config='debug'):
        key = (group, config)
        if key not in s.insts:
            g = GROUPS[group]
            s.insts[key] = Inst(g, [c for c in CHECKS.values() if c.group == group], s.work, config).build()
        return s.insts[key]

    # ---- C generation
    def gen_c(s, check, mode, native=False, inputs=None, vacuity=False):
        inst = s.inst(check.group, check.config); m = inst.module
        fn = inst.find(check); f = m.funcs[fn]
        arith = 'exact' if mode == 'exact' else ('uf' if mode == 'uf' else 'narrow')
        # assumed-contract stubs: the named functions are cut out of the closure and replaced by recording stand-ins
        stubfns = []; absent_counts = []; absent_decls = []   # call counters of optional stubs whose function does not occur in this tree: constant 0
        for st in check.stubs:
            r = re.compile(st.fn_re); hits = sorted(n for n, d in inst.dem.items() if r.fullmatch(d))
            if not hits:      # external function (declaration only): match the symbol or its demangled form
                dn = list(m.decls); dd = demangle([n[1:].strip('"') for n in dn])
                hits = sorted(n for n, d_ in zip(dn, dd) if r.fullmatch(n[1:]) or r.fullmatch(d_))
            if not hits and st.optional:
                if st.count: absent_counts.append(st.count)
                if st.absent: absent_decls.append(st.absent)
                continue
            if not hits: raise Broken('check %s: stub pattern %s matches no function of the IR (inlined away / renamed?)' % (check.id, st.fn_re))
            if len(hits) > 1 and st.optional:
                # an optional (acceptance) stub stands for every instantiation of the flat ISO call it describes (e.g. double* and double const* sources): same recording
                for h in hits: stubfns.append((st, h))
                continue
            if len(hits) > 1 and not st.only_first: raise Broken('check %s: stub pattern %s matches %d functions: %s' % (check.id, st.fn_re, len(hits), [inst.dem[h] for h in hits][:4]))
            stubfns.append((st, hits[0]))
        gen = ll2c.Gen(m, arith, cut=GROUPS[check.group].cut + ['^' + re.escape(n) + '$' for _, n in stubfns])
        gen.no_body = {n for _, n in stubfns}
        b = Binder(inst, check, gen, f)
        stub_ghosts = []       # (ctype, name, init) ; filled by stub_code
        stub_types = []
        def sparams(n):
            if n in m.funcs: return [t for t, _ in m.funcs[n].params], m.funcs[n].ret, m.funcs[n].byval
            ret, ps, va = m.decls[n]; return list(ps), ret, set()
        for st, n in stubfns:
            sps, sret, sbyval = sparams(n)
            for rec_ in st.record:
                gname, idx, rec = rec_[:3]
                t = sps[idx]
                if isinstance(t, Ptr) and isinstance(t.to, (Named, Lit)): b.extra_types[gname] = t.to; stub_types.append(t.to)
                if rec: b.extra_cxx[gname] = rec
            stub_types += [t.to for t in sps if isinstance(t, Ptr) and isinstance(t.to, (Named, Lit))]
        def stub_code(g_):
            out = ['int %s;' % c for c in absent_counts] + absent_decls
            for c in absent_counts: stub_ghosts.append(('int', c, '0'))
            for st, n in stubfns:
                sps, sret, sbyval = sparams(n); ps = []; body = []
                for i, t in enumerate(sps):
                    byv = i in sbyval
                    if native and byv and isinstance(t, Ptr): ps.append(g_.ct(t.to, 'a%d' % i))
                    else: ps.append(g_.ct(t, 'a%d' % i))
                if st.count:
                    out.append('int %s;' % st.count); stub_ghosts.append(('int', st.count, '0')); body.append('%s++;' % st.count)
                for rec_ in st.record:
                    gname, idx, rec = rec_[:3]; how = rec_[3] if len(rec_) > 3 else None
                    t = sps[idx]; byv = idx in sbyval
                    if how == 'deref':
                        out.append('%s;' % g_.ct(t.to, gname)); body.append('%s = *a%d;' % (gname, idx))
                    elif how == 'ptr' or not (isinstance(t, Ptr) and isinstance(t.to, (Named, Lit))):
                        out.append('%s;' % g_.ct(t, gname)); body.append('%s = a%d;' % (gname, idx))
                    else:
                        g_.need(t.to); out.append('%s;' % g_.ct(t.to, gname))
                        body.append('%s = %sa%d;' % (gname, '' if (native and byv) else '*', idx))
                if st.ret:
                    out.append('%s;' % g_.ct(sret, st.ret)); stub_ghosts.append((g_.ct(sret), st.ret, None))
                if st.decl: out.append(st.decl)
                if st.body: body.append(st.body)
                if 'return' not in st.body: body.append('return %s;' % st.ret if st.ret else 'return;')
                out.append('%s(%s){ %s }' % (g_.ct(sret, ll2c.cname(n)), ', '.join(ps) or 'void', ' '.join(body)))
            seen_ = set(); ded = []      # the same ghost may be declared by several stubs (one stub object matching several instantiations)
            for ln in out:
                if ln in seen_ and not ln.rstrip().endswith('}'): continue
                seen_.add(ln); ded.append(ln)
            return '\n'.join(ded)
        fcn = ll2c.cname(fn)
        # contract text
        lines = []; linemap = {}
        req = [('requires', r) for r in check.requires] + [('lemma', l) for l in check.lemmas]
        ctext = []
        for kind, r in req:
            if kind == 'lemma' and not re.match(r'^\s*LEMMA_[A-Z0-9_]+\(', r):
                raise Broken('check %s: lemma "%s" is not an instance of a schema in lemmas.h' % (check.id, r))
            if kind == 'lemma' and mode != 'uf': continue
            ctext.append('__CPROVER_requires(%s)' % b.for_contract(r))
        if check.assigns is not None:
            stub_targets = []
            for st, n in stubfns:
                stub_targets += ([st.count] if st.count else []) + [r_[0] for r_ in st.record] + list(st.ghosts)
            ctext.append('__CPROVER_assigns(%s)' % ', '.join([b.for_contract(a) for a in check.assigns] + stub_targets + ['EXC']))
        ens_lines = []
        for label, e in check.ensures:
            ctext.append('/*ENS:%s*/ __CPROVER_ensures(%s)' % (label, b.for_contract(e)))
        if vacuity: ctext.append('/*ENS:VACUITY*/ __CPROVER_ensures(0)')
        contracts = {fcn: '\n'.join(ctext)}
        loopc = {(fcn, k): b.for_contract(v) if False else v for k, v in check.loops.items()}
        ptypes = [t.to for t, _ in f.params if isinstance(t, Ptr) and not isinstance(t.to, (Void, Fn_t)) and not (isinstance(t.to, (Named, Lit)) and getattr(gen.dl.body(t.to), 'opaque', False))] + [f.ret] + stub_types
        xroots = []
        for xr in check.extra_roots:
            if '@' + xr not in m.funcs: raise Broken('check %s: extra root %s is not a function of the IR' % (check.id, xr))
            xroots.append('@' + xr)
        gen.contracts = {} if native else contracts
        gen.loopc = {} if native else loopc
        if native:
            # types and prototypes only: the body is the real g++-compiled code
            gen.emit([fn] + xroots, need_types=ptypes)
            src = ['#define LL2C_NATIVE 1', '#include <stdio.h>', '#include <stdlib.h>', '#include <signal.h>', '#include <setjmp.h>',
                   ll2c.PRELUDE.replace('extern int EXC;', 'int EXC;')]
            fw = sorted({gen.sname(Named(t)) for t in m.types} | {v[0] for v in gen.litnames.values()})
            src += [nm + ';' for nm in fw] + gen.struct_order + [gen.proto(fn), ARITH_H, lemma_header()]
            for ct_, n in check.ghosts: src.append('%s %s;' % (ct_, n))
            src.append(stub_code(gen))
        else:
            defs = '#define ARITH_%s %s\n' % ({'exact': 'EXACT', 'uf': 'UF', 'narrow': 'NARROW'}[arith], mode.split(':')[1] if ':' in mode else '1')
            code = gen.emit([fn] + xroots, need_types=ptypes, after_prelude=defs + ARITH_H + lemma_header() + '\nint EXC;\n' + ''.join('%s %s;\n' % g_ for g_ in check.ghosts), after_protos=stub_code)
            src = [code]
        # ghosts
        # harness
        h = []
        nd = set()
        def nondet(ctype):
            key = re.sub(r'[^A-Za-z0-9]', '_', ctype)
            nd.add((ctype, key)); return 'nondet_%s()' % key
        decls = []; inits = []
        for (name, (t, irn)) in zip(check.params, f.params):
            if name in check.decl:
                decls.append(check.decl[name]); continue
            opaque = isinstance(t, Ptr) and isinstance(t.to, (Named, Lit)) and getattr(gen.dl.body(t.to), 'opaque', False)
            if isinstance(t, Ptr) and not isinstance(t.to, (Void, Fn_t)) and not opaque:
                ctype = gen.ct(t.to); gen.need(t.to)
                decls.append('%s; %s = &%s_obj;' % (gen.ct(t.to, name + '_obj'), gen.ct(t, name), name))
                inits.append(('%s_obj' % name, ctype))
            else:
                decls.append('%s;' % gen.ct(t, name)); inits.append((name, gen.ct(t)))
        for ct_, n in check.ghosts: inits.append((n, ct_))
        for ct_, n, init in stub_ghosts:
            if init is None: inits.append((n, ct_))
        s_setup = b.for_harness(check.setup)
        retdecl = ''
        call = '%s(%s)' % (fcn, ', '.join(check.params))
        if not isinstance(f.ret, Void):
            retdecl = '%s;' % gen.ct(f.ret, 'RET'); call = 'RET = ' + call
        if not native:
            h.append('void harness(void){')
            h += ['  ' + d for d in decls]
            for var, ctype in inits: h.append('  %s = %s;' % (var, nondet(ctype)))
            h.append('  EXC = 0;')
            for ct_, n, init in stub_ghosts:
                if init is not None: h.append('  %s = %s;' % (n, init))
            if s_setup: h.append('  ' + s_setup)
            if retdecl: h.append('  ' + retdecl)
            h.append('  %s;' % call)
            if check.post: h.append('  ' + b.for_harness(check.post))
            for cv in check.covers:
                h.append('  __CPROVER_assert(!(%s), "COVER: %s");' % (b.for_harness(cv), c_escape(cv)))
            h.append('  __CPROVER_assert(0, "CANARY: harness end reachable (expected to fail)");')
            h.append('}')
            for ctype, key in sorted(nd): src.append('%s nondet_%s(void);' % (ctype, key))
            src += h
        else:
            src += s.native_main(check, b, gen, f, decls, inits, s_setup, retdecl, call, inputs)
        text = '\n'.join(src) + '\n'
        info = dict(fn=fn, fcn=fcn, nfuncs=len(gen.order), cut=sorted(gen.was_cut), externals=sorted(gen.externals),
                    asserts=[a for a in gen.asserts], nloops=gen.nloops.get(fcn, 0), dem=inst.dem[fn])
        return text, info

    def native_main(s, check, b, gen, f, decls, inits, setup, retdecl, call, inputs):
        h = ['static sigjmp_buf JB; static void on_abrt(int sig){ siglongjmp(JB, 1); }',
             'static char NATIVE_BUF[1<<20];',
             'int main(void){', '  int bad = 0;']
        h += ['  ' + d for d in decls]
        k = 0
        for var, ctype in inits:
            val = (inputs or {}).get(var)
            if val is None:
                h.append('  memset(&%s, 0, sizeof(%s)); /* no value in counterexample */' % (var, var))
            else:
                h.append('  { %s tmp_ = %s; %s = tmp_; }' % (ctype, val, var) if val.startswith('{') else '  %s = %s;' % (var, val))
        h.append('  EXC = 0;')
        if setup: h.append('  ' + setup)
        for i, r in enumerate(check.requires):
            h.append('  if(!(%s)) { printf("REQUIRES_FALSE %d\\n"); return 3; }' % (b.for_harness(r), i))
        h.append('  if(OVF) { printf("REQUIRES_OVERFLOW\\n"); return 3; }')
        # OLD() snapshots
        olds = []
        def old_sub(e):
            out = ''; i = 0
            while True:
                j = e.find('OLD(', i)
                if j < 0: return out + e[i:]
                depth = 0; k2 = j + 3
                while True:
                    if e[k2] == '(': depth += 1
                    elif e[k2] == ')':
                        depth -= 1
                        if depth == 0: break
                    k2 += 1
                inner = e[j+4:k2]; olds.append(inner)
                out += e[i:j] + 'old_%d' % (len(olds)-1); i = k2 + 1
        ens = [(label, old_sub(b.for_harness(e))) for label, e in check.ensures]
        for i, o in enumerate(olds): h.append('  __typeof__(%s) old_%d = %s;' % (o, i, o))
        if retdecl: h.append('  ' + retdecl)
        h.append('  signal(SIGABRT, on_abrt);')
        h.append('  if(sigsetjmp(JB, 1)) { printf("LIBRARY_ASSERTION_ABORT\\n"); return %d; }' % (0 if check.misuse else 4))
        h.append('  %s;' % call)
        if check.misuse:
            h.append('  printf("MISUSE_RETURNED\\n"); return 1;')
        for label, e in ens:
            h.append('  OVF = 0; if(!(%s)) { printf("ENSURES_FAIL %s\\n"); bad = 1; } else if(OVF) printf("ENSURES_OVERFLOW %s\\n");' % (e, label, label))
        h.append('  if(!bad) printf("ALL_ENSURES_HOLD\\n");')
        h.append('  return bad; }')
        return h

    # ---- pipeline
    def verify(s, check, mode=None, vacuity=False):
        mode = mode or check.mode
        r = Result(check, mode)
        d = os.path.join(s.work, 'chk_%s_%s%s' % (check.id, mode.replace(':', ''), '_vac' if vacuity else ''))
        os.makedirs(d, exist_ok=True)
        try:
            text, info = s.gen_c(check, mode, vacuity=vacuity)
        except Unsupported as ex:
            r.status = 'broken'; r.reason = 'translation: %s' % ex; return r
        except Broken as ex:
            r.status = 'broken'; r.reason = str(ex); return r
        r.fn = info['dem']; r.nfuncs = info['nfuncs']; r.cut = info['cut']; r.externals = info['externals']; r.info = info
        cfile = os.path.join(d, 'check.c'); open(cfile, 'w').write(text); r.cfile = cfile
        ensline = {}
        for i, ln in enumerate(text.split('\n'), 1):
            mm = re.match(r'/\*ENS:(.*?)\*/', ln)
            if mm: ensline[i] = mm.group(1)
        gb = os.path.join(d, 'a.gb'); gbi = os.path.join(d, 'b.gb')
        t0 = time.time()
        rc, out, err, _ = run(['goto-cc', '--function', 'harness', cfile, '-o', gb], timeout=300)
        if rc != 0:
            r.status = 'broken'; r.reason = 'goto-cc: ' + (err or out)[-1500:]; return r
        cmd = ['goto-instrument', '--dfcc', 'harness', '--enforce-contract', info['fcn']]
        if check.loops: cmd.append('--apply-loop-contracts')
        cmd += [gb, gbi]
        rc, out, err, _ = run(cmd, timeout=600, mem_kb=CBMC_MEM_KB)
        if rc != 0:
            r.status = 'broken'; r.reason = 'goto-instrument: ' + (err or out)[-1500:]; return r
        cb = ['cbmc', gbi, '--json-ui', '--trace', '--verbosity', '4']
        if mode != 'exact': cb += ['--no-signed-overflow-check']
        if check.unwind: cb += ['--unwind', str(check.unwind), '--unwinding-assertions']
        elif not check.loops: cb += ['--unwind', '7', '--unwinding-assertions']     # contracts without loop invariants cover loop-free code (and loops bounded by the constant D <= 6) only
        if check.objbits: cb += ['--object-bits', str(check.objbits)]
        cb += check.cbmc_flags
        r.cmd = ' '.join(['goto-cc --function harness check.c -o a.gb', '&&'] + cmd[:-2] + ['a.gb b.gb', '&&'] + ['cbmc b.gb [portfolio %s: first to finish]' % '|'.join(check.solvers)] + cb[2:])
        solver_flags = {'cadical': ['--sat-solver', 'cadical'], 'minisat': [], 'cvc5': ['--cvc5'], 'z3': ['--z3']}
        rc, out, err, dt, won = run_portfolio([cb + solver_flags[sv] for sv in check.solvers], timeout=check.timeout, mem_kb=CBMC_MEM_KB)
        r.time = time.time() - t0
        r.solver = 'minisat' if won is None else ('cvc5' if '--cvc5' in won else 'z3' if '--z3' in won else 'cadical' if '--sat-solver' in won else 'minisat')
        if rc == 124:
            r.status = 'timeout'; r.reason = 'cbmc exceeded %ds' % check.timeout; return r
        try:
            js = json.loads(out)
        except Exception:
            r.status = 'broken'; r.reason = 'cbmc output unparsable rc=%s: %s' % (rc, (out[-800:] + err[-800:])); return r
        results = None
        for item in js:
            if isinstance(item, dict) and 'result' in item: results = item['result']
            if isinstance(item, dict) and item.get('messageType') == 'ERROR':
                r.reason += item.get('messageText', '') + ' '
        if results is None:
            r.status = 'broken'; r.reason = 'cbmc produced no result: ' + r.reason + out[-600:]; return r
        undec = [pr for pr in results if pr.get('status') not in ('SUCCESS', 'FAILURE')]
        real_fail = [pr for pr in results if pr.get('status') == 'FAILURE' and not pr.get('description', '').startswith(('CANARY', 'COVER')) and '.unwind.' not in pr.get('property', '')]
        if undec and not real_fail:   # a FAILURE carries its own counterexample and stays sound; without one, undecided properties mean no verdict
            r.status = 'broken'; r.reason = 'cbmc left properties undecided (status %s): %s' % (sorted({pr.get('status', '?') for pr in undec}), r.reason[:300]); return r
        results = [pr for pr in results if pr.get('status') in ('SUCCESS', 'FAILURE')]   # CBMC leaves properties downstream of a failed assertion UNKNOWN
        for pr in results:
            name = pr.get('property', ''); desc = pr.get('description', ''); st = pr.get('status', '')
            loc = pr.get('sourceLocation', {}) or {}
            line = int(loc.get('line', 0) or 0)
            ob = dict(name=name, desc=desc, status=st, fn=loc.get('function', ''), line=line)
            if desc.startswith('CANARY'):
                r.canary = (st == 'FAILURE')
                if st == 'FAILURE' and 'trace' in pr: r.sample_inputs = extract_inputs(pr['trace'])
                continue
            if desc.startswith('COVER:'):
                r.covers.append((desc[7:], st == 'FAILURE'))
                continue
            if 'Check ensures clause' in desc or '.postcondition' in name:
                ob['class'] = 'ensures'; ob['label'] = ensline.get(line, '?')
            elif desc.startswith('library assertion'): ob['class'] = 'lib_assert'; ob['label'] = desc
            elif 'assigns' in name or 'is assignable' in desc: ob['class'] = 'frame'
            elif 'loop invariant' in desc or 'loop_invariant' in name or 'decreases' in desc: ob['class'] = 'loop'
            elif 'unwinding assertion' in desc or '.unwind.' in name: ob['class'] = 'unwind'
            else: ob['class'] = 'safety'
            if st == 'FAILURE':
                ob['trace_inputs'] = extract_inputs(pr.get('trace', []))
                ob['trace_tail'] = trace_tail(pr.get('trace', []))
                r.failed.append(ob)
            r.obligations.append(ob)
        r.status = 'ok' if not r.failed else 'failed'
        if not s.keep:
            for fpath in (gb, gbi):
                try: os.remove(fpath)
                except OSError: pass
        return r

    def replay_native(s, check, inputs, outdir=None):
        """run the real (g++-compiled) function on the inputs of a counterexample; returns (verdict, output)"""
        inst = s.inst(check.group, check.config)
        try:
            obj = inst.build_native()
            text, info = s.gen_c(check, check.mode, native=True, inputs=inputs)
        except (Broken, Unsupported) as ex:
            return 'unavailable', str(ex)
        d = os.path.join(s.work, 'rep_%s' % check.id); os.makedirs(d, exist_ok=True)
        cfile = os.path.join(d, 'replay.c'); open(cfile, 'w').write(text)
        robj = os.path.join(d, 'replay.o'); exe = os.path.join(d, 'replay.x')
        rc, out, err, _ = run(['gcc', '-std=gnu11', '-w', '-c', cfile, '-o', robj], timeout=120)
        if rc != 0: return 'unavailable', 'replay driver does not compile: ' + err[-1500:]
        rc, out, err, _ = run(['g++', robj, obj, '-o', exe] + GROUPS[check.group].__dict__.get('libs', []), timeout=120)
        if rc != 0: return 'unavailable', 'replay link failed: ' + err[-1500:]
        rc, out, err, _ = run([exe], timeout=60)
        if outdir:
            shutil.copy(cfile, os.path.join(outdir, 'replay_%s.c' % check.id))
        txt = out + err
        if 'REQUIRES_FALSE' in out or 'REQUIRES_OVERFLOW' in out: return 'precondition_not_met', txt
        if check.misuse:
            if 'MISUSE_RETURNED' in out: return 'confirmed', txt
            return 'not_confirmed', txt
        if 'ENSURES_FAIL' in out: return 'confirmed', txt
        if 'LIBRARY_ASSERTION_ABORT' in out: return 'confirmed_assert', txt
        if rc < 0 or rc > 4: return 'confirmed_crash', txt + ' rc=%d' % rc
        return 'not_confirmed', txt

Fn_t = ll2c.Fn

# ------------------------------------------------------------------ trace handling
_ptr_slots = {}
def json_value_to_c(v, path=''):
    """CBMC json value -> C initialiser text.  Pointers: CBMC prints no usable value for non-deterministic pointers, so every
    pointer leaf gets its own address inside NATIVE_BUF (distinct per variable/field; equal only if CBMC prints the same object+offset)"""
    if v is None: return None
    nm = v.get('name')
    if nm == 'struct':
        parts = []
        for mbr in v.get('members', []):
            if mbr.get('name', '').startswith('$pad'): continue
            x = json_value_to_c(mbr.get('value'), path + '.' + mbr['name'])
            if x is None: x = '0'
            parts.append('.%s = %s' % (mbr['name'], x))
        return '{' + ', '.join(parts) + '}' if parts else '{0}'
    if nm == 'array':
        return '{' + ', '.join((json_value_to_c(e.get('value'), path + '[%d]' % i) or '0') for i, e in enumerate(v.get('elements', []))) + '}'
    if nm == 'integer':
        d = re.sub(r'[uUlL]+$', '', str(v.get('data', '0')))
        if d.upper() in ('TRUE', 'FALSE'): return '1' if d.upper() == 'TRUE' else '0'
        mc = re.fullmatch(r"'(.)'", d)
        if mc: return str(ord(mc.group(1)))
        if not re.fullmatch(r'-?\d+', d):
            b = v.get('binary')
            if b and re.fullmatch(r'[01]+', b) and len(b) <= 64:
                x = int(b, 2)
                if b[0] == '1' and not str(v.get('type', '')).startswith('unsigned'): x -= 1 << len(b)
                return str(x) + 'LL'
            return '0'
        if d == '-9223372036854775808': return '(-9223372036854775807LL-1)'
        if len(d.lstrip('-')) > 18: return d + 'ULL'
        return d + 'LL'
    if nm == 'boolean': return '1' if v.get('data') in ('true', 'TRUE', '1', True) else '0'
    if nm == 'float':
        d = re.sub(r'[fFlL]$', '', str(v.get('data', '0')))
        return d if re.fullmatch(r'[-+0-9.eE]+', d) else '0'
    if nm == 'pointer' or nm == 'unknown' or str(v.get('type', '')).rstrip().endswith('*'):   # 'unknown': CBMC cannot print a non-deterministic (invalid-object) pointer
        d = v.get('data', '')
        mm = re.search(r'NULL\)\)? *\+ *(\d+)', d or '')
        if d and 'NULL' in d and not mm and path.count('.') == 0 and False: return '0'
        key = d if (d and 'NULL' not in d and 'INVALID' not in d.upper()) else ('leaf:' + path)
        if key not in _ptr_slots: _ptr_slots[key] = len(_ptr_slots)
        return '(void*)(NATIVE_BUF + %d)' % (8192 + 4096*(_ptr_slots[key] % 240))
    return None

def extract_inputs(trace, stop_at=None):
    """last whole-variable assignment to each harness-level variable before the call of the function under contract
    (= the non-deterministic inputs)"""
    vals = {}
    for st in trace:
        if st.get('stepType') == 'function-call':
            fnid = (st.get('function') or {}).get('identifier', '')
            if fnid not in ('harness', '__CPROVER_initialize', '__CPROVER__start') and not fnid.startswith('nondet_') and vals: break
        if st.get('stepType') != 'assignment': continue
        lhs = st.get('lhs', '')
        loc = st.get('sourceLocation', {}) or {}
        if loc.get('function') != 'harness': continue
        if not re.fullmatch(r'[A-Za-z_]\w*', lhs) or lhs.startswith('__'): continue
        c = json_value_to_c(st.get('value'), lhs)
        if c is not None: vals[lhs] = c
    return vals

def trace_tail(trace, n=12):
    out = []
    for st in trace[-60:]:
        if st.get('stepType') == 'assignment' and not st.get('hidden'):
            v = st.get('value', {})
            out.append('%s = %s' % (st.get('lhs'), v.get('data', v.get('name'))))
        elif st.get('stepType') == 'failure':
            out.append('FAILURE %s: %s' % (st.get('property'), st.get('reason')))
    return out[-n:]
