#!/usr/bin/env python3
"""write seeded/<id>/meta.json for every seed from its README.md, the confirmation log (tools/confirm_seed.sh) and seeded/results.json
(the outcome of running the registered checks against the seed, filled in by hand from tools/seed_matrix.sh runs)"""
import json, os, re, glob
root = os.path.join(os.path.dirname(os.path.abspath(__file__)), '..', 'seeded')
results = json.load(open(os.path.join(root, 'results.json')))
for d in sorted(glob.glob(os.path.join(root, 'C??-?'))):
    sid = os.path.basename(d); prop = sid.split('-')[0]
    readme = open(os.path.join(d, 'README.md')).read()
    title = readme.strip().split('\n')[0].lstrip('# ').strip()
    m = re.search(r'[Nn]eeded to manifest\W*\s*(.*?)(?:\n\s*\n|\n[-*] |\n\*\*|\Z)', readme, re.S)
    needs = re.sub(r'\s+', ' ', m.group(1)).strip() if m else ''
    changed = re.findall(r'^[-+]{3} [ab]/(\S+)', open(os.path.join(d, 'patch.diff')).read(), re.M)
    conf = open(os.path.join(d, 'confirmed.txt')).read().strip() if os.path.exists(os.path.join(d, 'confirmed.txt')) else ''
    mm = re.search(r'demo_pristine_rc=(\d+) demo_patched_rc=(\d+) build_rc=(\d+) tests: (.*)', conf)
    r = results.get(sid, {})
    meta = {
        'seed': sid, 'property': prop, 'title': title, 'files_changed': sorted(set(changed)),
        'needs_to_manifest': needs,
        'produced_by': 'fresh sub-agent given only the property text and a scratch git worktree of /repo under /tmp (nothing from /verif)',
        'confirmation': {
            'command': 'tools/confirm_seed.sh seeded/%s [libs]   (scratch worktree of /repo: apply patch, build the 78 tests, run them, compile and run demo.cpp with and without the patch)' % sid,
            'demo_exit_pristine': int(mm.group(1)) if mm else None, 'demo_exit_patched': int(mm.group(2)) if mm else None,
            'test_build_exit': int(mm.group(3)) if mm else None, 'test_suite': mm.group(4) if mm else None},
        'rebased': r.get('rebased', False),
        'check_run': {'command': r.get('command', 'git -C /repo apply seeded/%s/patch.diff && ./check %s --tier quick; git -C /repo checkout -- .' % (sid, prop)),
                      'exit': r.get('exit'), 'verdict': r.get('verdict'), 'caught_by': r.get('caught_by', []), 'note': r.get('note', '')},
    }
    json.dump(meta, open(os.path.join(d, 'meta.json'), 'w'), indent=1)
print('wrote', len(glob.glob(os.path.join(root, 'C??-?', 'meta.json'))), 'meta.json files')
