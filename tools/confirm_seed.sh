#!/bin/bash
# usage: confirm_seed.sh <seed_dir containing patch.diff demo.cpp> <libs...>
# confirms in a scratch worktree: patch applies, library builds, all 78 tests pass with it, demo fails with / passes without
S=$(realpath $1); shift; LIBS="$@"
WT=$(mktemp -d /tmp/confirm.XXXX); rmdir $WT
git -C /repo worktree add -q --detach $WT HEAD || exit 2
trap "git -C /repo worktree remove --force $WT" EXIT
cd $WT
${CXX:-g++} -std=c++17 -O1 -I $WT/include $S/demo.cpp -o $WT/demo_pristine $LIBS 2>$WT/err.txt || { echo "demo does not compile on pristine"; cat $WT/err.txt | head; exit 2; }
./demo_pristine >/dev/null 2>&1; P=$?
git apply $S/patch.diff || { echo "patch does not apply"; exit 2; }
${CXX:-g++} -std=c++17 -O1 -I $WT/include $S/demo.cpp -o $WT/demo_patched $LIBS 2>$WT/err.txt || { echo "demo does not compile with patch"; exit 2; }
timeout 60 ./demo_patched >/dev/null 2>&1; Q=$?
cmake -G Ninja -S . -B _build -DCMAKE_BUILD_TYPE=RelWithDebInfo -DCMAKE_CXX_FLAGS=-Wno-error >/dev/null 2>&1
cmake --build _build -j16 > build.log 2>&1; B=$?
T=$(OMPI_ALLOW_RUN_AS_ROOT=1 OMPI_ALLOW_RUN_AS_ROOT_CONFIRM=1 ctest --test-dir _build -j16 2>&1 | grep "tests passed")
echo "seed=$S demo_pristine_rc=$P demo_patched_rc=$Q build_rc=$B tests: $T"
