#!/usr/bin/env python3
"""Record-layout resolver: maps C++ member paths (real member names, through base classes) to byte offsets using
clang's `-fdump-record-layouts` output, and byte offsets to field paths of the C structs ll2c emits."""
import re
from ll2c import Named, Lit, Arr, Ptr, Int, Flt, Unsupported

class LayoutError(Exception):
    pass

def norm(name):
    name = re.sub(r'\b(struct|class|union|enum)\s+', '', name)
    name = re.sub(r'\s+', '', name)
    return name

class Node:
    __slots__ = ('off', 'type', 'name', 'base', 'children', 'empty')
    def __init__(s, off, type_, name, base, empty):
        s.off = off; s.type = type_; s.name = name; s.base = base; s.children = []; s.empty = empty

class Layouts:
    def __init__(s, text):
        s.rec = {}       # normalised record name -> (Node root, sizeof)
        blocks = text.split('*** Dumping AST Record Layout')
        for b in blocks[1:]:
            b = b.split('*** Dumping IRgen Record Layout')[0]
            s._block(b)
    def _block(s, b):
        root = None; stack = []; sizeof = None
        for ln in b.split('\n'):
            m = re.match(r'^\s*(\d+)(?::[\d-]+)? \| (\s*)(.*)$', ln)
            if not m:
                m2 = re.search(r'\[sizeof=(\d+)', ln)
                if m2: sizeof = int(m2.group(1))
                continue
            off = int(m.group(1)); ind = len(m.group(2))//2; rest = m.group(3).rstrip()
            empty = rest.endswith('(empty)')
            if empty: rest = rest[:-7].rstrip()
            base = False
            if rest.endswith('(base)') or rest.endswith('(virtual base)') or rest.endswith('(primary base)'):
                base = True; rest = rest[:rest.rindex('(')].rstrip()
            if rest.startswith('('):       # vtable pointer etc.
                node = Node(off, rest, rest, False, False)
            elif base or ind == 0:
                node = Node(off, rest, None, base, empty)
            else:
                # "type name": name is the last token
                mm = re.match(r'^(.*?)[ ]?([A-Za-z_]\w*)$', rest)
                if not mm: node = Node(off, rest, None, False, empty)
                else: node = Node(off, mm.group(1).strip(), mm.group(2), False, empty)
            if ind == 0:
                if root is not None: break      # a second record printed in the same block (should not happen)
                root = node; stack = [node]
            else:
                del stack[ind:]
                if not stack: continue
                stack[-1].children.append(node); stack.append(node)
        if root is not None:
            s.rec.setdefault(norm(root.type), (root, sizeof))
    def find(s, name):
        if name.startswith('re:'): return s.search(name[3:])
        n = norm(name)
        if n in s.rec: return n
        raise LayoutError("no record layout for '%s'" % name)
    def search(s, regex):
        r = re.compile(regex)
        hits = [k for k in s.rec if r.fullmatch(k)]
        if len(hits) != 1: raise LayoutError("record pattern %s matches %d records: %s" % (regex, len(hits), hits[:5]))
        return hits[0]
    def _members(s, node, seg, out):
        for c in node.children:
            if c.name == seg and not c.base: out.append(c)
        for c in node.children:
            if c.base: s._members(c, seg, out)
    def _member(s, node, seg):
        """member `name` or `name#k` (k-th member of that name: own members first, then base classes depth-first)"""
        k = 0
        if '#' in seg: seg, k = seg.split('#'); k = int(k)
        out = []; s._members(node, seg, out)
        return out[k] if k < len(out) else None
    def offset(s, record, path):
        """byte offset of member path (list of names) within record; returns (offset, node)"""
        root, _ = s.rec[s.find(record)]
        node = root
        for seg in path:
            nxt = s._member(node, seg)
            if nxt is None:
                raise LayoutError("record %s has no member path %s (failed at '%s')" % (record, '.'.join(path), seg))
            node = nxt
        return node.off, node
    def sizeof(s, record):
        return s.rec[s.find(record)][1]

def c_path(dl, t, off, stop_size=None):
    """field path ('.f0.f1[2]') inside LLVM type t leading to the scalar (or aggregate of size stop_size) at byte offset off"""
    path = ''
    while True:
        if isinstance(t, (Int, Flt, Ptr)):
            if off != 0: raise LayoutError("offset lands inside a scalar")
            return path
        sz = dl.size_align(t)[0]
        if stop_size is not None and off == 0 and sz == stop_size: return path
        b = dl.body(t) if isinstance(t, (Named, Lit)) else t
        if isinstance(b, Lit):
            offs = dl.offsets(t); hit = None
            for i, e in enumerate(b.elems):
                es = dl.size_align(e)[0]
                if offs[i] <= off < offs[i] + es: hit = i
            if hit is None: raise LayoutError("offset %d not inside %r" % (off, t))
            path += '.f%d' % hit; off -= offs[hit]; t = b.elems[hit]
        elif isinstance(b, Arr):
            es = dl.size_align(b.of)[0]; k = off // es
            path += '[%d]' % k; off -= k*es; t = b.of
        else: raise LayoutError("c_path into %r" % (t,))
