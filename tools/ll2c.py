#!/usr/bin/env python3
"""ll2c: instruction-by-instruction translation of textual LLVM-14 IR (typed pointers) to C11 for CBMC.

One C function per IR function, mangled names kept, call graph kept.  Anything outside the supported
instruction set raises Unsupported (the driver turns that into exit 2: extraction break) -- nothing is
skipped silently.  See DESIGN.md section 1 for what the translation drops.
"""
import re, sys, hashlib

class Unsupported(Exception):
    pass

# ------------------------------------------------------------------ tokenizer
TOK = re.compile(r'''
   \s+
 | (?P<str>c?"(?:[^"\\]|\\.)*")
 | (?P<id>[%@][-a-zA-Z$._0-9]+|[%@]"(?:[^"\\]|\\.)*")
 | (?P<meta>![-a-zA-Z$._0-9]*)
 | (?P<num>-?[0-9]+\.[0-9]*(?:e[+-]?[0-9]+)?|-?[0-9]+(?![0-9a-zA-Z_.])|0x[KLMHR]?[0-9A-Fa-f]+)
 | (?P<word>[a-zA-Z_][a-zA-Z_0-9.]*)
 | (?P<dots>\.\.\.)
 | (?P<punct>[][(){}<>,=*:#|])
''', re.X)

def tokenize(s):
    out = []; i = 0; n = len(s)
    while i < n:
        if s[i] == ';': break
        m = TOK.match(s, i)
        if not m: raise Unsupported("tokenize: %r" % s[i:i+60])
        i = m.end()
        if m.lastgroup: out.append((m.lastgroup, m.group(m.lastgroup)))
    return out

# ------------------------------------------------------------------ types
class T: pass
class Int(T):
    def __init__(s, b): s.bits = b
    def __repr__(s): return 'i%d' % s.bits
class Flt(T):
    def __init__(s, n): s.name = n
    def __repr__(s): return s.name
class Void(T):
    def __repr__(s): return 'void'
class Ptr(T):
    def __init__(s, to): s.to = to
    def __repr__(s): return '%r*' % (s.to,)
class Arr(T):
    def __init__(s, n, of): s.n = n; s.of = of
    def __repr__(s): return '[%d x %r]' % (s.n, s.of)
class Named(T):
    def __init__(s, name): s.name = name
    def __repr__(s): return s.name
class Lit(T):
    def __init__(s, elems, packed=False, opaque=False): s.elems = elems; s.packed = packed; s.opaque = opaque
    def __repr__(s): return '{%s}' % ','.join(map(repr, s.elems))
class Fn(T):
    def __init__(s, ret, params, va): s.ret = ret; s.params = params; s.va = va
    def __repr__(s): return 'fn'

class P:
    def __init__(s, toks): s.t = toks; s.i = 0
    def peek(s, k=0): return s.t[s.i+k] if s.i+k < len(s.t) else (None, None)
    def next(s):
        if s.i >= len(s.t): raise Unsupported("unexpected end of line: %r" % (s.t,))
        x = s.t[s.i]; s.i += 1; return x
    def accept(s, val):
        if s.peek()[1] == val: s.i += 1; return True
        return False
    def expect(s, val):
        x = s.next()
        if x[1] != val: raise Unsupported("expected %r got %r in %r" % (val, x, ' '.join(t[1] for t in s.t)))
    def eof(s): return s.i >= len(s.t)

    def type(s):
        k, v = s.next()
        if k == 'word':
            if re.fullmatch(r'i[0-9]+', v): t = Int(int(v[1:]))
            elif v in ('double', 'float', 'x86_fp80', 'half', 'fp128'): t = Flt(v)
            elif v == 'void': t = Void()
            elif v == 'opaque': t = Lit([], opaque=True)
            elif v == 'metadata': t = Void()
            else: raise Unsupported("type word " + v)
        elif k == 'id' and v[0] == '%': t = Named(v)
        elif v == '[':
            n = int(s.next()[1]); s.expect('x'); of = s.type(); s.expect(']'); t = Arr(n, of)
        elif v == '{':
            t = Lit(s._elems('}'))
        elif v == '<':
            if s.peek()[1] == '{':
                s.next(); el = s._elems('}'); s.expect('>'); t = Lit(el, True)
            else: raise Unsupported("vector type")
        else: raise Unsupported("type token %r" % ((k, v),))
        while True:
            if s.accept('*'): t = Ptr(t)
            elif s.peek()[1] == 'addrspace': raise Unsupported('addrspace')
            elif s.peek()[1] == '(':
                s.next(); ps = []; va = False
                if not s.accept(')'):
                    while True:
                        if s.peek()[0] == 'dots': s.next(); va = True
                        else: ps.append(s.type())
                        if s.accept(')'): break
                        s.expect(',')
                t = Fn(t, ps, va)
            else: break
        return t
    def _elems(s, close):
        el = []
        if not s.accept(close):
            while True:
                el.append(s.type())
                if s.accept(close): break
                s.expect(',')
        return el

PARAM_ATTRS = {'noundef', 'nonnull', 'noalias', 'nocapture', 'readonly', 'writeonly', 'readnone', 'zeroext', 'signext',
               'returned', 'immarg', 'inreg', 'nofree', 'nest', 'swiftself', 'nosync', 'nounwind', 'willreturn'}
def skip_attrs(p):
    """skips parameter attributes; returns the set of attribute names seen"""
    seen = set()
    while True:
        k, v = p.peek()
        if v in PARAM_ATTRS and k == 'word': p.next(); seen.add(v)
        elif v in ('align', 'dereferenceable', 'dereferenceable_or_null'):
            p.next(); seen.add(v)
            if p.accept('('): p.next(); p.expect(')')
            else: p.next()
        elif v in ('sret', 'byval', 'byref', 'inalloca', 'preallocated', 'elementtype'):
            p.next(); seen.add(v); p.expect('('); p.type(); p.expect(')')
        else: break
    return seen

# ------------------------------------------------------------------ module
class Module:
    def __init__(s):
        s.types = {}      # %name -> Lit
        s.globals = {}    # @name -> raw text after '='
        s.funcs = {}      # @name -> Func
        s.decls = {}      # @name -> (ret, [types], va)
        s.attrs = {}      # '#n' -> text
        s.fattr = {}      # @name -> [attr group ids / 'NOUNWIND']

class Func:
    def __init__(s, name, ret, params):
        s.name = name; s.ret = ret; s.params = params; s.blocks = []; s.sret = None; s.byval = set()

LINKAGE = {'fastcc', 'ccc', 'coldcc', 'dso_local', 'linkonce_odr', 'internal', 'hidden', 'weak_odr', 'private', 'weak', 'available_externally',
           'external', 'protected', 'default', 'linkonce', 'unnamed_addr', 'local_unnamed_addr', 'dso_preemptable'}

def parse_module(text):
    m = Module()
    lines = text.split('\n'); i = 0
    while i < len(lines):
        ln = lines[i]
        if ln.startswith('%') and ' = type ' in ln:
            p = P(tokenize(ln)); name = p.next()[1]; p.expect('='); p.expect('type')
            m.types[name] = p.type()
        elif ln.startswith('@'):
            mm = re.match(r'(@"(?:[^"\\]|\\.)*"|@[^ ]+) = (.*)', ln)
            m.globals[mm.group(1)] = mm.group(2)
        elif ln.startswith('attributes #'):
            mm = re.match(r'attributes #(\d+) = \{(.*)\}', ln)
            if mm: m.attrs[mm.group(1)] = mm.group(2)
        elif ln.startswith('declare '):
            p = P(tokenize(ln)); p.next()
            while p.peek()[1] in LINKAGE: p.next()
            skip_attrs(p)
            ret = p.type(); name = p.next()[1]
            p.expect('('); ps = []; va = False
            if not p.accept(')'):
                while True:
                    if p.peek()[0] == 'dots': p.next(); va = True
                    else:
                        ps.append(p.type()); skip_attrs(p)
                    if p.accept(')'): break
                    p.expect(',')
            m.decls[name] = (ret, ps, va)
            m.fattr[name] = re.findall(r'#(\d+)', ln.rsplit(')', 1)[-1])
        elif ln.startswith('define '):
            hdr = ln; body = []; i += 1
            while lines[i] != '}': body.append(lines[i]); i += 1
            f = parse_func(hdr, body); m.funcs[f.name] = f
            tail = hdr.rsplit(')', 1)[-1]
            m.fattr[f.name] = re.findall(r'#(\d+)', tail) + (['NOUNWIND'] if re.search(r'\bnounwind\b', tail) else [])
        i += 1
    return m

def parse_func(hdr, body):
    p = P(tokenize(hdr)); p.expect('define')
    while p.peek()[1] in LINKAGE: p.next()
    skip_attrs(p)
    ret = p.type(); name = p.next()[1]; p.expect('(')
    params = []; sret = None; byval = set()
    if not p.accept(')'):
        k = 0
        while True:
            if p.peek()[0] == 'dots':
                p.next(); p.expect(')'); break
            t = p.type()
            at = skip_attrs(p)
            if 'sret' in at: sret = len(params)
            if 'byval' in at: byval.add(len(params))
            if p.peek()[0] == 'id': pn = p.next()[1]
            else: pn = '%' + str(k)
            params.append((t, pn)); k += 1
            if p.accept(')'): break
            p.expect(',')
    f = Func(name, ret, params); f.sret = sret; f.byval = byval
    cur = ['entry', []]; f.blocks.append(cur)
    for ln in body:
        if not ln.strip(): continue
        mm = re.match(r'^([-a-zA-Z$._0-9]+|"[^"]*"):', ln)
        if mm:
            lab = mm.group(1)
            if not cur[1] and cur[0] == 'entry' and len(f.blocks) == 1: cur[0] = lab.strip('"')
            else:
                cur = [lab.strip('"'), []]; f.blocks.append(cur)
            continue
        st = ln.strip()
        if cur[1] and (st.startswith('to label') or st.startswith('catch ') or st == 'cleanup' or st.startswith('filter ')
                       or (cur[1][-1].startswith('switch ') and not cur[1][-1].rstrip().endswith(']'))):
            cur[1][-1] += ' ' + st; continue
        cur[1].append(st)
    return f

def cname(n):
    n = n[1:]
    if n.startswith('"'): n = n[1:-1]
    return re.sub(r'[^A-Za-z0-9_]', '_', n)

# ------------------------------------------------------------------ data layout (x86-64)
class DL:
    def __init__(s, m): s.m = m; s.cache = {}
    def body(s, t):
        if isinstance(t, Named):
            if t.name not in s.m.types: raise Unsupported("unknown type " + t.name)
            return s.m.types[t.name]
        return t
    def size_align(s, t):
        if isinstance(t, Int):
            b = max(1, (t.bits + 7)//8)
            if b > 8: return (16, 16) if b > 8 else (b, b)
            a = 1
            while a < b: a *= 2
            return (a, a)
        if isinstance(t, Flt): return {'double': (8, 8), 'float': (4, 4), 'x86_fp80': (16, 16), 'half': (2, 2), 'fp128': (16, 16)}[t.name]
        if isinstance(t, Ptr): return (8, 8)
        if isinstance(t, Arr):
            sz, al = s.size_align(t.of); return (sz*t.n, al)
        if isinstance(t, (Named, Lit)):
            key = t.name if isinstance(t, Named) else id(t)
            if key in s.cache: return s.cache[key]
            b = s.body(t); off = 0; al = 1
            for e in b.elems:
                es, ea = s.size_align(e)
                if b.packed: ea = 1
                off = (off + ea - 1)//ea*ea + es; al = max(al, ea)
            r = ((off + al - 1)//al*al, al)
            s.cache[key] = r; return r
        raise Unsupported("size of %r" % (t,))
    def offsets(s, t):
        b = s.body(t); off = 0; out = []
        for e in b.elems:
            es, ea = s.size_align(e)
            if b.packed: ea = 1
            off = (off + ea - 1)//ea*ea; out.append(off); off += es
        return out

# ------------------------------------------------------------------ generator
ICMP = {'eq': '==', 'ne': '!=', 'slt': '<', 'sle': '<=', 'sgt': '>', 'sge': '>=', 'ult': '<', 'ule': '<=', 'ugt': '>', 'uge': '>='}
BIN = {'add': '+', 'sub': '-', 'mul': '*', 'sdiv': '/', 'srem': '%', 'udiv': '/', 'urem': '%', 'and': '&', 'or': '|',
       'xor': '^', 'shl': '<<', 'ashr': '>>', 'lshr': '>>'}

PRELUDE = r'''
#include <stdint.h>
#include <stddef.h>
#include <string.h>
#include <stdlib.h>
typedef int64_t I64; typedef uint64_t U64;
#ifndef LL2C_NATIVE
I64 __CPROVER_uninterpreted_mul(I64, I64); I64 __CPROVER_uninterpreted_sdiv(I64, I64); I64 __CPROVER_uninterpreted_srem(I64, I64);
#endif
extern int EXC;
static char EXC_OBJ[64];   /* storage of the exception object (its contents are never inspected) */
'''

LIBC = {'strlen', 'memcmp', 'memchr', 'memcpy', 'memmove', 'memset', 'malloc', 'free', 'calloc', 'realloc', 'abort', 'strcmp', 'strncmp'}

class Gen:
    def __init__(s, mod, arith='exact', cut=(), contracts=None, loopc=None, cutbodies=True):
        s.m = mod; s.arith = arith; s.dl = DL(mod)
        s.cut = [re.compile(c) for c in cut]
        s.contracts = contracts or {}       # cname -> contract text
        s.loopc = loopc or {}               # (cname, k) -> loop contract text
        s.structs_done = set(); s.struct_order = []; s.litnames = {}
        s.used_globals = {}; s.was_cut = set(); s.externals = set(); s.nloops = {}; s.asserts = []
        s.nd_types = {}; s.no_body = set()

    # ---- C types
    def sname(s, t):
        if isinstance(t, Named): return 'struct S_' + cname(t.name)
        key = repr(s.ctype_key(t))
        if key not in s.litnames:
            s.litnames[key] = ('struct L_%s' % hashlib.md5(key.encode()).hexdigest()[:8], t)
        return s.litnames[key][0]
    def ctype_key(s, t):
        if isinstance(t, Int): return ('i', t.bits)
        if isinstance(t, Flt): return ('f', t.name)
        if isinstance(t, Ptr): return ('p', s.ctype_key(t.to))
        if isinstance(t, Arr): return ('a', t.n, s.ctype_key(t.of))
        if isinstance(t, Named): return ('n', t.name)
        if isinstance(t, Lit): return ('l', tuple(s.ctype_key(e) for e in t.elems), t.packed)
        if isinstance(t, Void): return ('v',)
        if isinstance(t, Fn): return ('fn', s.ctype_key(t.ret), tuple(s.ctype_key(e) for e in t.params))
        raise Unsupported("key")
    def ct(s, t, decl=''):
        if isinstance(t, Int):
            if t.bits == 1: b = '_Bool'
            elif t.bits == 64: b = 'I64'
            elif t.bits in (8, 16, 32): b = 'int%d_t' % t.bits
            elif t.bits == 128: b = '__int128'
            else: b = 'signed __CPROVER_bitvector[%d]' % t.bits
            return (b + ' ' + decl).strip()
        if isinstance(t, Flt):
            return ({'double': 'double', 'float': 'float', 'x86_fp80': 'long double', 'fp128': 'long double', 'half': 'float'}[t.name] + ' ' + decl).strip()
        if isinstance(t, Void): return ('void ' + decl).strip()
        if isinstance(t, Ptr):
            if isinstance(t.to, Fn):
                f = t.to
                ps = ', '.join(s.ct(x) for x in f.params) or ('void' if not f.va else '')
                if f.va: ps = (ps + ', ...') if ps else '...'
                return s.ct(f.ret, '(*%s)(%s)' % (decl, ps))
            if isinstance(t.to, Arr): return s.ct(t.to, '(*%s)' % decl)
            if isinstance(t.to, Void): return ('void *' + decl).strip()
            return s.ct(t.to, '*' + decl)
        if isinstance(t, Arr): return s.ct(t.of, '%s[%d]' % (decl, max(t.n, 1)))
        if isinstance(t, (Named, Lit)): return (s.sname(t) + ' ' + decl).strip()
        raise Unsupported("ctype %r" % (t,))
    def emit_struct(s, t):
        nm = s.sname(t)
        if nm in s.structs_done: return
        s.structs_done.add(nm)
        body = s.dl.body(t)
        if body.opaque: return
        for e in body.elems: s.need(e)
        fields = ''.join('  %s;\n' % s.ct(e, 'f%d' % i) for i, e in enumerate(body.elems)) or '  char empty_;\n'
        s.struct_order.append('%s {\n%s}%s;\n' % (nm, fields, ' __attribute__((packed))' if body.packed else ''))
    def need(s, t):
        if isinstance(t, (Named, Lit)): s.emit_struct(t)
        elif isinstance(t, Arr): s.need(t.of)
        elif isinstance(t, Ptr): s.touch(t.to)
    def touch(s, t):
        """make sure a (possibly only forward-declared) struct name exists"""
        if isinstance(t, Lit): s.sname(t)
        elif isinstance(t, Ptr): s.touch(t.to)
        elif isinstance(t, Arr): s.touch(t.of)
        elif isinstance(t, Fn):
            s.touch(t.ret)
            for x in t.params: s.touch(x)
    def elem_type(s, t, idx):
        b = s.dl.body(t)
        if isinstance(b, Lit): return b.elems[idx]
        if isinstance(b, Arr): return b.of
        raise Unsupported("elem_type")
    def is_cut(s, name):
        return any(c.search(name) for c in s.cut)

    # ---- whole closure
    def emit(s, roots, extra_protos=(), after_prelude='', need_types=(), after_protos=None):
        m = s.m
        todo = list(roots); done = {}; order = []
        while todo:
            n = todo.pop()
            if n in done: continue
            if n not in m.funcs:
                if n in m.decls: s.externals.add(n)
                continue
            if s.is_cut(n): s.was_cut.add(n); continue
            ft = FT(s, m.funcs[n])
            done[n] = ft.translate()
            order.append(n)
            todo += sorted(ft.called)
        s.order = order
        for t in need_types: s.need(t)
        body = '\n\n'.join(done[n] for n in order)
        # prototypes for everything referenced
        protos = []
        for n in sorted(set(order) | s.was_cut | s.externals | set(extra_protos)):
            if n.startswith('@llvm.') or n[1:] in LIBC: continue
            protos.append(s.proto(n))
        # globals
        gl = []
        for g, (ctype_decl, init) in sorted(s.used_globals.items()):
            gl.append('%s%s;' % (ctype_decl, (' = ' + init) if init else ''))
        for key, (nm, t) in list(s.litnames.items()): s.emit_struct(t)
        out = [PRELUDE, after_prelude]
        fw = sorted({s.sname(Named(t)) for t in m.types} | {v[0] for v in s.litnames.values()})
        out += [nm + ';' for nm in fw]
        out += s.struct_order
        out += protos
        out += gl
        if after_protos: out.append(after_protos(s) if callable(after_protos) else after_protos)
        out.append(body)
        # cut / external functions: explicit non-deterministic stand-ins (listed in the evidence as trusted base)
        for n in sorted((s.was_cut | s.externals) - set(s.no_body)):
            if n.startswith('@llvm.') or n[1:] in LIBC: continue
            ret, ps, va = s.sig(n)
            a = ', '.join(s.ct(t, 'a%d' % i) for i, t in enumerate(ps))
            if va: a = a + ', ...' if a else '...'
            if isinstance(ret, Void): out.append('%s(%s){ }' % (s.ct(ret, cname(n)), a or 'void'))
            else: out.append('%s(%s){ %s; return nd_; }' % (s.ct(ret, cname(n)), a or 'void', s.ct(ret, 'nd_')))
        return '\n'.join(out) + '\n'
    def sig(s, n):
        m = s.m
        if n in m.funcs:
            f = m.funcs[n]; return f.ret, [t for t, _ in f.params], False
        return m.decls[n]
    def proto(s, n):
        ret, ps, va = s.sig(n)
        for t in ps: s.touch(t)
        s.touch(ret); s.need(ret)
        a = ', '.join(s.ct(t) for t in ps)
        if va: a = a + ', ...' if a else '...'
        return '%s(%s);' % (s.ct(ret, cname(n)), a or 'void')

class FT:
    """translation of one function"""
    def __init__(s, g, f):
        s.g = g; s.f = f; s.vt = {}; s.lines = []; s.decl = []; s.names = {}; s.used = set()
    def v(s, name):
        if name not in s.names:
            c = 'v_' + cname(name)
            while c in s.used: c += '_'
            s.used.add(c); s.names[name] = c
        return s.names[name]
    def lab(s, name):
        return 'L_' + re.sub(r'[^A-Za-z0-9_]', '_', name.lstrip('%').strip('"'))
    def retundef(s):
        return '' if isinstance(s.f.ret, Void) else ' ND_RET'

    # ---- constants / operands
    def global_ref(s, v):
        g = s.g; m = g.m
        if v in m.funcs or v in m.decls:
            s.called.add(v); return cname(v)
        if v not in m.globals: raise Unsupported("unknown global " + v)
        raw = m.globals[v]
        if v not in g.used_globals:
            mm = re.search(r'\b(?:constant|global)\s+(.*)', raw)
            if not mm: raise Unsupported("global form " + raw[:60])
            p = P(tokenize(mm.group(1))); t = p.type(); g.need(t)
            k, val = p.peek()
            init = None
            if k == 'str':
                bs = decode_cstr(val)
                init = '{' + ','.join(str(b if b < 128 else b-256) for b in bs) + '}'
            elif val == 'zeroinitializer': init = '{0}'
            elif k == 'num' and isinstance(t, (Int,)): init = val
            elif val in ('null',): init = '0'
            elif val in ('{', '['):
                # aggregate constant (e.g. the constexpr objects multi::_ / ALL): nested braces of integer / zero leaves; anything else stays non-deterministic
                def agg(p_):
                    k_, v_ = p_.next()
                    if v_ in ('{', '['):
                        close = '}' if v_ == '{' else ']'; parts = []
                        if p_.accept(close): return '{0}'
                        while True:
                            p_.type(); x = agg(p_)
                            if x is None: return None
                            parts.append(x)
                            if p_.accept(close): break
                            p_.expect(',')
                        return '{' + ', '.join(parts) + '}'
                    if k_ == 'num' and re.fullmatch(r'-?\d+', v_): return '(-9223372036854775807LL-1)' if v_ == '-9223372036854775808' else v_ + 'LL'
                    if v_ == 'zeroinitializer': return '{0}'
                    if v_ in ('true', 'false'): return '1' if v_ == 'true' else '0'
                    return None
                try: init = agg(p)
                except Unsupported: init = None
            else: init = None     # left non-deterministic (extern, no initialiser)
            # IR `constant` objects with a known initialiser are emitted const: CBMC's contract instrumentation havocs every non-const static object
            is_const = re.search(r'\bconstant\s', raw.split('=', 1)[1] if '=' in raw else raw) is not None
            qual = ('static const ' if is_const else 'static ') if init is not None else 'extern '
            g.used_globals[v] = (qual + g.ct(t, 'G_' + cname(v)), init)
            g.gtypes = getattr(g, 'gtypes', {}); g.gtypes[v] = t
        return '(&G_%s)' % cname(v)
    def gtype(s, v):
        s.global_ref(v); return Ptr(s.g.gtypes[v])
    def const_expr(s, p, kw):
        """constant expressions appearing as operands: getelementptr / bitcast / inttoptr / ptrtoint"""
        if kw == 'getelementptr':
            p.accept('inbounds'); p.expect('(')
            t, e = s.gep(p); p.expect(')'); return t, e
        if kw in ('bitcast', 'inttoptr', 'ptrtoint', 'addrspacecast'):
            p.expect('('); t, v = s.typed_operand(p); p.expect('to'); t2 = p.type(); p.expect(')')
            s.g.touch(t2)
            return t2, '((%s)%s)' % (s.g.ct(t2), v)
        raise Unsupported("constexpr " + kw)
    def operand(s, p, t):
        k, v = p.next()
        if k == 'id' and v[0] == '%':
            if v not in s.vt and v not in s.fwd: raise Unsupported("use of undefined value %s in %s" % (v, s.f.name))
            return s.v(v)
        if k == 'id' and v[0] == '@': return s.global_ref(v)
        if k == 'num':
            if isinstance(t, Flt):
                if v.startswith('0x'):
                    if v[2] in 'KLMHR': raise Unsupported('long double constant')
                    import struct
                    d = struct.unpack('>d', bytes.fromhex(v[2:].rjust(16, '0')))[0]
                    if d != d or d in (float('inf'), float('-inf')): raise Unsupported('nan/inf constant')
                    return repr(d)
                return v
            if isinstance(t, Int) and t.bits == 64:
                if v == '-9223372036854775808': return '(-9223372036854775807LL-1)'
                return '((I64)%sLL)' % v
            if isinstance(t, Int) and t.bits > 64: return '((__int128)%sLL)' % v
            return v
        if v == 'true': return '1'
        if v == 'false': return '0'
        if v == 'null': return '0'
        if v in ('undef', 'poison'): return None
        if v == 'zeroinitializer': return 'ZERO'
        if v in ('getelementptr', 'bitcast', 'inttoptr', 'ptrtoint'):
            return s.const_expr(p, v)[1]
        raise Unsupported("operand %r" % ((k, v),))
    def typed_operand(s, p):
        t = p.type(); skip_attrs(p); return t, s.operand(p, t)

    def gep(s, p):
        p.accept('inbounds')
        base_t = p.type(); p.expect(','); s.g.need(base_t)
        pt, pv = s.typed_operand(p)
        idx = []
        while p.accept(','):
            p.accept('inrange')
            it, iv = s.typed_operand(p); idx.append((it, iv))
        cur = base_t
        i0 = idx[0][1]
        zero0 = i0 in ('0', '((I64)0LL)')
        if isinstance(base_t, Void) or (isinstance(base_t, Int) and base_t.bits == 8 and False): pass
        expr = '(%s)' % pv if zero0 else '(%s + %s)' % (pv, i0)
        if len(idx) == 1: return Ptr(base_t), expr
        first = True
        for it, iv in idx[1:]:
            b = s.g.dl.body(cur) if isinstance(cur, (Named, Lit)) else cur
            if isinstance(b, Lit):
                k = int(re.sub(r'[^0-9-]', '', iv.replace('(I64)', '').replace('LL', '')))
                expr = expr + ('->' if first else '.') + 'f%d' % k
                cur = b.elems[k]
            elif isinstance(b, Arr):
                if first: expr = '(*%s)' % expr
                expr = expr + '[%s]' % iv
                cur = b.of
            else: raise Unsupported("gep into %r" % (cur,))
            first = False
        return Ptr(cur), '&(' + expr + ')'

    def cast_u(s, t, e):
        if isinstance(t, Int):
            if t.bits == 64: return '((U64)%s)' % e
            if t.bits in (8, 16, 32): return '((uint%d_t)%s)' % (t.bits, e)
            if t.bits == 1: return '((_Bool)%s)' % e
            if t.bits == 128: return '((unsigned __int128)%s)' % e
            return '((unsigned __CPROVER_bitvector[%d])%s)' % (t.bits, e)
        raise Unsupported("cast_u %r" % (t,))

    def mulop(s, op, a, b, t):
        """64-bit mul/sdiv/srem according to the arithmetic mode"""
        ar = s.g.arith
        const = lambda x: re.fullmatch(r'\(\(I64\)-?\d+LL\)', x) is not None
        if ar == 'exact' or not (isinstance(t, Int) and t.bits == 64): return None
        if const(a) or const(b):
            if op == 'mul' or const(b): return None          # linear: keep exact
        if ar == 'uf': return 'UF_%s(%s,%s)' % (op.upper(), a, b)
        if ar.startswith('narrow'): return 'NARROW_%s(%s,%s)' % (op.upper(), a, b)
        raise Unsupported("arith mode " + ar)

    def instr(s, ln, blk):
        p = P(tokenize(ln)); g = s.g
        dst = None
        if p.peek()[0] == 'id' and p.peek(1)[1] == '=':
            dst = p.next()[1]; p.next()
        k, op = p.next()
        def assign(t, expr):
            s.vt[dst] = t
            if expr is not None: s.lines.append('  %s = %s;' % (s.v(dst), expr))
            else: s.v(dst)
        if op in ('tail', 'musttail', 'notail'): k, op = p.next()
        if op == 'alloca':
            t = p.type(); g.need(t)
            if p.accept(','):
                if p.peek()[1] != 'align': raise Unsupported('variable-size alloca')
            s.decl.append('  %s;' % g.ct(t, 'A_' + cname(dst)))
            assign(Ptr(t), '&A_' + cname(dst)); return
        if op == 'getelementptr':
            t, e = s.gep(p); assign(t, e); return
        if op == 'load':
            p.accept('volatile')
            t = p.type(); p.expect(','); pt, pv = s.typed_operand(p); g.need(t)
            assign(t, '*' + pv); return
        if op == 'store':
            p.accept('volatile')
            t, v = s.typed_operand(p); p.expect(','); pt, pv = s.typed_operand(p)
            if v is None: return
            if v == 'ZERO': s.lines.append('  memset(%s,0,sizeof(*%s));' % (pv, pv)); return
            s.lines.append('  *%s = %s;' % (pv, v)); return
        if op in BIN:
            flags = set()
            while p.peek()[1] in ('nsw', 'nuw', 'exact'): flags.add(p.next()[1])
            t = p.type(); a = s.operand(p, t); p.expect(','); b = s.operand(p, t)
            if a is None: a = '0'
            if b is None: b = '0'
            if op in ('mul', 'sdiv', 'srem'):
                e = s.mulop(op, a, b, t)
                if e is not None: assign(t, e); return
            if op in ('udiv', 'urem', 'lshr') or (op in ('add', 'sub', 'mul', 'shl') and 'nsw' not in flags):
                e = '(%s)(%s %s %s)' % (g.ct(t), s.cast_u(t, a), BIN[op], s.cast_u(t, b))
            else: e = '%s %s %s' % (a, BIN[op], b)
            if isinstance(t, Int) and t.bits == 1: e = '(%s)&1' % e
            assign(t, e); return
        if op == 'icmp':
            cc = p.next()[1]; t = p.type(); a = s.operand(p, t); p.expect(','); b = s.operand(p, t)
            if a is None: a = '0'
            if b is None: b = '0'
            if cc[0] == 'u' and isinstance(t, Int): a = s.cast_u(t, a); b = s.cast_u(t, b)
            if cc[0] in 'us' and len(cc) == 3 and isinstance(t, Ptr): a = '(uintptr_t)' + a; b = '(uintptr_t)' + b
            assign(Int(1), '%s %s %s' % (a, ICMP[cc], b)); return
        if op == 'fcmp':
            while p.peek()[1] in ('fast', 'nnan', 'ninf', 'nsz', 'arcp', 'contract', 'afn', 'reassoc'): p.next()
            cc = p.next()[1]; t = p.type(); a = s.operand(p, t); p.expect(','); b = s.operand(p, t)
            mm = {'oeq': '==', 'une': '!=', 'olt': '<', 'ole': '<=', 'ogt': '>', 'oge': '>='}
            if cc == 'uno': assign(Int(1), '(%s != %s || %s != %s)' % (a, a, b, b)); return
            if cc == 'ord': assign(Int(1), '(%s == %s && %s == %s)' % (a, a, b, b)); return
            if cc not in mm: raise Unsupported('fcmp ' + cc)
            assign(Int(1), '%s %s %s' % (a, mm[cc], b)); return
        if op in ('fadd', 'fsub', 'fmul', 'fdiv'):
            while p.peek()[1] in ('fast', 'nnan', 'ninf', 'nsz', 'arcp', 'contract', 'afn', 'reassoc'): p.next()
            t = p.type(); a = s.operand(p, t); p.expect(','); b = s.operand(p, t)
            assign(t, '%s %s %s' % (a, {'fadd': '+', 'fsub': '-', 'fmul': '*', 'fdiv': '/'}[op], b)); return
        if op == 'fneg':
            while p.peek()[1] in ('fast', 'nnan', 'ninf', 'nsz', 'arcp', 'contract', 'afn', 'reassoc'): p.next()
            t = p.type(); a = s.operand(p, t); assign(t, '-%s' % a); return
        if op in ('sitofp', 'fptosi', 'uitofp', 'fptoui', 'fpext', 'fptrunc'):
            t, v = s.typed_operand(p); p.expect('to'); t2 = p.type()
            if op == 'uitofp': v = s.cast_u(t, v)
            assign(t2, '(%s)%s' % (g.ct(t2), v)); return
        if op in ('zext', 'sext', 'trunc', 'bitcast', 'ptrtoint', 'inttoptr'):
            t, v = s.typed_operand(p); p.expect('to'); t2 = p.type(); g.touch(t2)
            if v is None: assign(t2, None); return
            if op == 'zext' and isinstance(t, Int): v = s.cast_u(t, v)
            if op == 'trunc' and isinstance(t2, Int) and t2.bits == 1: assign(t2, '(%s)&1' % v); return
            if op == 'bitcast' and not (isinstance(t, Ptr) and isinstance(t2, Ptr)): raise Unsupported('non-pointer bitcast')
            assign(t2, '(%s)%s' % (g.ct(t2), v)); return
        if op == 'freeze':
            t, v = s.typed_operand(p); assign(t, v); return
        if op == 'select':
            ct_, c = s.typed_operand(p); p.expect(','); t, a = s.typed_operand(p); p.expect(','); t2, b = s.typed_operand(p)
            if a is None: a = b
            if b is None: b = a
            assign(t, '%s ? %s : %s' % (c, a, b)); return
        if op == 'phi':
            t = p.type(); s.vt[dst] = t; g.need(t)
            s.decl.append('  %s;' % g.ct(t, s.v(dst) + '__in'))
            while True:
                p.expect('['); v = s.operand(p, t); p.expect(','); l = p.next()[1]; p.expect(']')
                s.phis.setdefault(l.lstrip('%').strip('"'), []).append((s.v(dst) + '__in', v))
                if not p.accept(','): break
            s.phi_heads.setdefault(blk, []).append('  %s = %s__in;' % (s.v(dst), s.v(dst)))
            return
        if op == 'extractvalue':
            t, v = s.typed_operand(p); idxs = []
            while p.accept(','): idxs.append(int(p.next()[1]))
            cur = t; e = v
            for k_ in idxs:
                cur = g.elem_type(cur, k_); e = (e or '') + '.f%d' % k_
            assign(cur, e if v is not None else None); return
        if op == 'insertvalue':
            t, v = s.typed_operand(p); p.expect(','); t2, v2 = s.typed_operand(p); idxs = []
            while p.accept(','): idxs.append(int(p.next()[1]))
            s.vt[dst] = t; g.need(t)
            if v is not None and v != 'ZERO': s.lines.append('  %s = %s;' % (s.v(dst), v))
            if v == 'ZERO': s.lines.append('  memset(&%s,0,sizeof(%s));' % (s.v(dst), s.v(dst)))
            if v2 is not None: s.lines.append('  %s%s = %s;' % (s.v(dst), ''.join('.f%d' % k_ for k_ in idxs), v2))
            return
        if op == 'landingpad':
            t = p.type(); s.vt[dst] = t; g.need(t); s.lines.append('  EXC = 0; /* landingpad: exception caught / cleanup entered */'); s.v(dst)
            s.pad_cleanup = 'cleanup' in ln and 'catch' not in ln
            return
        if op == 'resume':
            s.lines.append('  EXC = 1; return%s;' % s.retundef()); return
        if op in ('call', 'invoke'):
            return s.call(p, ln, blk, dst, op == 'invoke', assign)
        if op == 'ret':
            t = p.type()
            if isinstance(t, Void): s.lines.append('  return;'); return
            v = s.operand(p, t); s.lines.append('  return%s;' % (' ' + v if v is not None else s.retundef())); return
        if op == 'br':
            s.flush_phis(blk)
            if p.peek()[1] == 'label':
                p.next(); l = p.next()[1]; s.lines.append('  goto %s;' % s.lab(l)); return
            t, c = s.typed_operand(p); p.expect(','); p.expect('label'); l1 = p.next()[1]; p.expect(','); p.expect('label'); l2 = p.next()[1]
            if c is None: c = 'ND_BOOL'
            s.lines.append('  if(%s) goto %s; else goto %s;' % (c, s.lab(l1), s.lab(l2))); return
        if op == 'switch':
            s.flush_phis(blk)
            t, c = s.typed_operand(p); p.expect(','); p.expect('label'); d = p.next()[1]; p.expect('[')
            s.lines.append('  switch(%s){' % c)
            while not p.accept(']'):
                t2, v = s.typed_operand(p); p.expect(','); p.expect('label'); l = p.next()[1]
                s.lines.append('    case %s: goto %s;' % (v, s.lab(l)))
            s.lines.append('    default: goto %s; }' % s.lab(d)); return
        if op == 'unreachable':
            s.lines.append('  __CPROVER_assert(0,"unreachable instruction reached"); __CPROVER_assume(0);'); return
        raise Unsupported("instruction %s: %s" % (op, ln))

    def call(s, p, ln, blk, dst, is_invoke, assign):
        g = s.g
        while p.peek()[1] in ('fastcc', 'ccc', 'coldcc'): p.next()
        skip_attrs(p)
        rt = p.type()
        if isinstance(rt, Ptr) and isinstance(rt.to, Fn): rt = rt.to.ret
        if isinstance(rt, Fn): rt = rt.ret
        k, callee = p.next()
        if k == 'word' and callee == 'bitcast':
            raise Unsupported('call through bitcast')
        if k != 'id': raise Unsupported('callee ' + callee)
        p.expect('(')
        args = []
        if not p.accept(')'):
            while True:
                if p.peek()[1] == 'metadata' or p.peek()[0] == 'meta':
                    # llvm.dbg.* style -- only in ignorable intrinsics
                    if callee.startswith('@llvm.dbg') or callee.startswith('@llvm.experimental.noalias'): return
                    raise Unsupported('metadata arg')
                at, av = s.typed_operand(p); args.append((at, av))
                if p.accept(')'): break
                p.expect(',')
        def eh_tail():
            p2 = p
            while p2.peek()[1] == '#': p2.next(); p2.next()
            p2.expect('to'); p2.expect('label'); ok = p2.next()[1]; p2.expect('unwind'); p2.expect('label'); lp = p2.next()[1]
            return ok, lp
        ret_undef = s.retundef()
        if callee == '@__assert_fail':
            text = ''
            mm = re.search(r'\* (@[.\w]+|@"[^"]*"), i64 0, i64 0\)', ln)
            if mm and mm.group(1) in g.m.globals:
                sm = re.search(r'c"(.*)\\00"', g.m.globals[mm.group(1)]); text = sm.group(1) if sm else ''
            files = re.findall(r'\* (@[.\w]+|@"[^"]*"), i64 0, i64 0\)', ln)
            fname = ''
            if len(files) > 1 and files[1] in g.m.globals:
                sm = re.search(r'c"(.*)\\00"', g.m.globals[files[1]]); fname = (sm.group(1) if sm else '').split('/')[-1]
            lm = re.search(r'i32 noundef (\d+)', ln)
            text = re.sub(r'\\([0-9A-Fa-f]{2})', lambda m_: chr(int(m_.group(1), 16)), text).replace('\\', '/').replace('"', "'")
            label = 'library assertion %s:%s: %s' % (fname, lm.group(1) if lm else '?', text)
            g.asserts.append((s.f.name, label))
            s.lines.append('  LIB_ASSERT_FAIL("%s");' % label)
            if is_invoke: eh_tail()
            return
        if callee == '@__cxa_begin_catch':
            if dst: assign(rt, args[0][1] or '0')
            return
        if callee == '@__cxa_end_catch':
            if is_invoke:
                ok, lp = eh_tail(); s.flush_phis(blk); s.lines.append('  goto %s;' % s.lab(ok))
            return
        if callee in ('@__cxa_rethrow', '@__cxa_throw', '@_ZSt17rethrow_exceptionNSt15__exception_ptr13exception_ptrE'):
            s.lines.append('  EXC = 1; /* throw */')
            if is_invoke:
                ok, lp = eh_tail(); s.flush_phis(blk); s.lines.append('  goto %s;' % s.lab(lp))
            else: s.lines.append('  return%s;' % ret_undef)
            return
        if callee == '@__cxa_allocate_exception':
            assign(rt, '(%s)EXC_OBJ' % g.ct(rt)); return
        if callee == '@__cxa_free_exception': return
        if callee == '@llvm.trap':
            s.lines.append('  __CPROVER_assert(0,"llvm.trap reached"); __CPROVER_assume(0);'); return
        if callee in ('@__clang_call_terminate', '@_ZSt9terminatev', '@abort'):
            s.lines.append('  __CPROVER_assert(0,"std::terminate/abort reached"); __CPROVER_assume(0);'); return
        if callee.startswith('@llvm.memcpy') or callee.startswith('@llvm.memmove'):
            d, sv, n = args[0], args[1], args[2]
            mm = re.fullmatch(r'\(\(I64\)(\d+)LL\)', n[1] or '')
            done = False
            if mm:
                sz = int(mm.group(1))
                # typed struct assignment when both pointers were bitcast from pointers to the same struct type of that size
                da = s.origin.get(d[1]); sa = s.origin.get(sv[1])
                if da and sa and g.ctype_key(da[0]) == g.ctype_key(sa[0]) and isinstance(da[0], Ptr) \
                        and not isinstance(da[0].to, (Void, Fn)) and g.dl.size_align(da[0].to)[0] == sz:
                    s.lines.append('  *%s = *%s; /* memcpy %d */' % (da[1], sa[1], sz)); done = True
            if not done: s.lines.append('  memcpy(%s,%s,%s);' % (d[1], sv[1], n[1]))
            return
        if callee.startswith('@llvm.memset'):
            s.lines.append('  memset(%s,%s,%s);' % (args[0][1], args[1][1], args[2][1])); return
        if callee.startswith('@llvm.dbg') or callee.startswith('@llvm.lifetime') or callee.startswith('@llvm.assume') \
                or callee.startswith('@llvm.experimental.noalias') or callee.startswith('@llvm.invariant'): return
        if callee.startswith('@llvm.smax') or callee.startswith('@llvm.smin') or callee.startswith('@llvm.umax') or callee.startswith('@llvm.umin'):
            a, b = args[0][1], args[1][1]
            ua, ub = (s.cast_u(rt, a), s.cast_u(rt, b)) if '.u' in callee else (a, b)
            o = '>' if 'max' in callee else '<'
            assign(rt, '%s %s %s ? %s : %s' % (ua, o, ub, a, b)); return
        if callee.startswith('@llvm.abs'):
            assign(rt, '%s < 0 ? -%s : %s' % (args[0][1], args[0][1], args[0][1])); return
        if callee.startswith('@llvm.fabs'):
            assign(rt, '%s < 0 ? -%s : %s' % (args[0][1], args[0][1], args[0][1])); return
        if callee.startswith('@llvm.expect'):
            assign(rt, args[0][1]); return
        if callee.startswith('@llvm.fmuladd') or callee.startswith('@llvm.fma'):
            assign(rt, '%s * %s + %s' % (args[0][1], args[1][1], args[2][1])); return
        if callee.startswith('@llvm.umul.with.overflow.i64'):
            s.vt[dst] = rt; g.need(rt)
            s.lines.append('  { unsigned __int128 w_ = (unsigned __int128)(U64)%s * (unsigned __int128)(U64)%s; %s.f0 = (I64)(U64)w_; %s.f1 = (w_ >> 64) != 0; }' % (args[0][1], args[1][1], s.v(dst), s.v(dst)))
            return
        if callee.startswith('@llvm.stacksave'): assign(rt, '0'); return
        if callee.startswith('@llvm.is.constant'): assign(rt, '0'); return   # __builtin_constant_p of a non-constant: LLVM's own lowering is `false` (LangRef); only selects between equivalent libstdc++ paths (std::prev/advance)
        if callee.startswith('@llvm.stackrestore'): return
        if callee.startswith('@llvm.'): raise Unsupported('intrinsic ' + callee)
        if callee[0] == '@':
            s.called.add(callee); cn = cname(callee)
        else: cn = s.v(callee)
        e = '%s(%s)' % (cn, ', '.join(a[1] if a[1] is not None else '0' for a in args))
        if isinstance(rt, Void) or dst is None: s.lines.append('  %s;' % e)
        else:
            g.need(rt); assign(rt, e)
        while p.peek()[1] == '#': p.next(); p.next()
        if not is_invoke and not s.nounwind(callee, ln):
            s.lines.append('  if(EXC) return%s;' % ret_undef)
        if is_invoke:
            ok, lp = eh_tail()
            # phi copies differ per edge: emit both
            s.lines.append('  if(EXC) { %s goto %s; } else { %s goto %s; }' % (
                s.phi_copies(blk, lp), s.lab(lp), s.phi_copies(blk, ok), s.lab(ok)))

    def nounwind(s, callee, ln):
        m = s.g.m
        ids = re.findall(r'#(\d+)', ln.rsplit(')', 1)[-1]) + (m.fattr.get(callee, []) if callee[0] == '@' else [])
        if 'NOUNWIND' in ids: return True
        return any('nounwind' in m.attrs.get(i, '') for i in ids)

    # phi handling: copies are attached to edges (pred block -> succ block)
    def phi_copies(s, blk, succ):
        succ = succ.lstrip('%').strip('"')
        out = []
        for (tblk, dst, v) in s.edge_phis.get(blk, []):
            if tblk == succ and v is not None: out.append('%s = %s;' % (dst, v))
        return ' '.join(out)
    def flush_phis(s, blk):
        for (tblk, dst, v) in s.edge_phis.get(blk, []):
            if v is not None: s.lines.append('  %s = %s;' % (dst, v))

    def translate(s):
        f = s.f; g = s.g
        s.called = set(); s.origin = {}
        # pass 0: forward-declare all SSA names (phis may use values defined later)
        s.fwd = set()
        for bn, ins in f.blocks:
            for ln in ins:
                mm = re.match(r'\s*(%[-a-zA-Z$._0-9]+|%"[^"]*") = ', ln)
                if mm: s.fwd.add(mm.group(1))
        for t, n in f.params: s.vt[n] = t; s.v(n)
        # pass 1: collect phis (pred-edge copies)
        s.phis = {}; s.phi_heads = {}; s.edge_phis = {}
        phi_list = []
        for bn, ins in f.blocks:
            for ln in ins:
                if re.match(r'\s*(%[-a-zA-Z$._0-9]+|%"[^"]*") = phi ', ln): phi_list.append((bn, ln))
        # translate phis after everything else is known: we need names only, so do a dry run
        save_lines = s.lines; save_decl = s.decl
        s.lines = []; s.decl = []
        for bn, ln in phi_list: s.instr(ln, bn)
        for pred, lst in s.phis.items():
            for (d, v) in lst: pass
        # edge_phis[pred] = [(target block, dst, value)]
        s.phis = {}; s.phi_heads = {}; s.lines = []; s.decl = []
        for bn, ln in phi_list:
            before = {k: len(v) for k, v in s.phis.items()}
            s.instr(ln, bn)
            for pred, lst in s.phis.items():
                for (d, v) in lst[before.get(pred, 0):]:
                    s.edge_phis.setdefault(pred, []).append((bn, d, v))
        phi_decl = s.decl; phi_heads = s.phi_heads
        s.lines = []; s.decl = []; s.phis = {}; s.phi_heads = {}
        entry_name = f.blocks[0][0]
        # entry block may be referred to by its implicit numeric label
        labels = {bn for bn, _ in f.blocks}
        for pred in list(s.edge_phis):
            if pred not in labels:
                s.edge_phis.setdefault(entry_name, []).extend(s.edge_phis.pop(pred))
        body = []
        for bn, ins in f.blocks:
            s.lines = []
            for ln in ins:
                if re.match(r'\s*(%[-a-zA-Z$._0-9]+|%"[^"]*") = phi ', ln):
                    continue
                # remember bitcast origins for typed memcpy
                mm = re.match(r'\s*(%[-a-zA-Z$._0-9]+|%"[^"]*") = bitcast (.*) to i8\*$', ln)
                s.instr(ln, bn)
                if mm:
                    try:
                        p2 = P(tokenize(mm.group(2))); t0 = p2.type(); k0, v0 = p2.next()
                        if k0 == 'id' and v0[0] == '%': s.origin[s.v(mm.group(1))] = (t0, s.v(v0))
                    except Unsupported: pass
            body.append((bn, s.lines))
        s.decl = phi_decl + s.decl
        params = ', '.join(g.ct(t, s.v(n)) for t, n in f.params) or 'void'
        for t, n in f.params: g.touch(t)
        g.need(f.ret)
        decls = []
        pn = {n for _, n in f.params}
        for n, t in s.vt.items():
            if n in pn: continue
            g.need(t); g.touch(t)
            decls.append('  %s;' % g.ct(t, s.v(n)))
        fn = cname(f.name)
        out = ['%s(%s)' % (g.ct(f.ret, fn), params)]
        if fn in g.contracts: out.append(g.contracts[fn])
        out.append('{')
        out += s.decl + decls
        if not isinstance(f.ret, Void):
            out.append('  %s;' % g.ct(f.ret, 'ND_RET'))
        out.append('  _Bool ND_BOOL;')
        # natural loops -> for(;;): back edge = goto to the label of an earlier-or-same block
        order_ = [bn for bn, _ in body]; pos = {bn: i for i, bn in enumerate(order_)}
        labpos = {s.lab(bn): i for bn, i in pos.items()}
        loops = {}
        for i, (bn, lines) in enumerate(body):
            for l in lines:
                for t in re.findall(r'goto (L_[A-Za-z0-9_]+)', l):
                    if t in labpos and labpos[t] <= i:
                        loops[labpos[t]] = max(loops.get(labpos[t], -1), i)
        # loops must nest properly (intervals); otherwise keep gotos (no loop contract possible)
        ivs = sorted(loops.items())
        ok_nest = all(not (a < c <= b < d) for (a, b) in ivs for (c, d) in ivs)
        # jumps from outside into the middle of a loop body?
        if ok_nest:
            for (a, b) in ivs:
                for i, (bn, lines) in enumerate(body):
                    if a <= i <= b: continue
                    for l in lines:
                        for t in re.findall(r'goto (L_[A-Za-z0-9_]+)', l):
                            if t in labpos and a < labpos[t] <= b: ok_nest = False
        g.nloops[fn] = len(loops) if ok_nest else 0
        if not ok_nest: loops = {}
        for i in sorted(loops):
            hl = s.lab(body[i][0])
            for j in range(len(body)):
                inside = i <= j <= loops[i]
                # 'continue' only valid if not inside a nested inner loop or switch: use it only for blocks whose innermost loop is this one
                innermost = inside and not any(a != i and i <= a and a <= j <= b for (a, b) in loops.items() if a > i)
                has_switch = any('switch(' in x for x in body[j][1])
                if inside and innermost and not has_switch:
                    body[j] = (body[j][0], [re.sub(r'goto %s;' % hl, 'continue;', x) for x in body[j][1]])
                elif not inside:
                    body[j] = (body[j][0], [re.sub(r'goto %s;' % hl, 'goto %s__pre;' % hl, x) for x in body[j][1]])
                else:
                    body[j] = (body[j][0], [re.sub(r'goto %s;' % hl, 'goto %s__cont;' % hl, x) for x in body[j][1]])
        k = 0; closes = {}
        for i, (bn, lines) in enumerate(body):
            if i in loops:
                hl = s.lab(bn)
                out.append('%s__pre: ;' % hl)
                lc = g.loopc.get((fn, k), ''); k += 1
                out.append('  for(;;) %s {' % lc)
                closes.setdefault(loops[i], []).append(hl)
            out.append('%s: ;' % s.lab(bn))
            out += phi_heads.get(bn, [])
            out += lines
            for hl in reversed(closes.get(i, [])):
                out.append('  %s__cont: ; }' % hl)
        out.append('}')
        return '\n'.join(out)

def decode_cstr(tok):
    assert tok.startswith('c"'); body = tok[2:-1]; out = []; i = 0
    while i < len(body):
        if body[i] == '\\':
            out.append(int(body[i+1:i+3], 16)); i += 3
        else: out.append(ord(body[i])); i += 1
    return out

def main():
    import argparse
    ap = argparse.ArgumentParser(); ap.add_argument('ll'); ap.add_argument('--roots', nargs='*'); ap.add_argument('--arith', default='exact')
    ap.add_argument('-o'); ap.add_argument('--cut', nargs='*', default=[])
    a = ap.parse_args()
    m = parse_module(open(a.ll).read())
    g = Gen(m, a.arith, cut=a.cut)
    roots = [('@' + r if not r.startswith('@') else r) for r in (a.roots or [n[1:] for n in m.funcs])]
    src = g.emit(roots)
    if a.o: open(a.o, 'w').write(src)
    else: print(src)
    print('translated %d functions, cut %d, external %d' % (len(g.order), len(g.was_cut), len(g.externals)), file=sys.stderr)

if __name__ == '__main__':
    main()
