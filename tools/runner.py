#!/usr/bin/env python3
"""Property-level driver:  check <PROPERTY> [--tier quick|thorough] [--replay file] [--only check_id,...] [--keep]

exit 0  every obligation of every check of the property discharged (or only KNOWN-FINDINGs)
exit 1  a violation: line `VIOLATION property=<id> replay=<path>[ no-failing-input-found]`
exit 2  undecided / broken machinery (timeout, extraction break, vacuity, UF incompleteness) -- never a violation
"""
import os, sys, json, glob, time, shutil, tempfile, importlib.util, argparse, re, threading
import concurrent.futures as cf
HERE = os.path.dirname(os.path.abspath(__file__))
sys.path.insert(0, HERE); sys.path.insert(0, os.path.join(HERE, '..', 'contracts'))
import vf

def load_specs():
    for f in sorted(glob.glob(os.path.join(vf.VERIF, 'contracts', 'c*.py'))):
        if os.path.basename(f) == 'common.py': continue
        name = os.path.basename(f)[:-3]
        if name in sys.modules: continue
        spec = importlib.util.spec_from_file_location(name, f); mod = importlib.util.module_from_spec(spec); sys.modules[name] = mod
        spec.loader.exec_module(mod)
    for h in vf.POST: h()

def known_findings():
    p = os.path.join(vf.VERIF, 'known_findings.json')
    if not os.path.exists(p): return []
    return [e for e in json.load(open(p)).get('findings', []) if e.get('status') == 'open']

def match_known(kf, prop, check, ob):
    for e in kf:
        if e['check'] != check.id: continue
        if prop not in e.get('properties', [e.get('property')]): continue
        lab = ob.get('label') or ob.get('desc', '')
        if e.get('obligation') and e['obligation'] != lab: continue
        return e
    return None

class Decision:
    def __init__(s, check):
        s.check = check; s.results = []; s.verdict = 'ok'; s.violations = []; s.known = []; s.reason = ''; s.undecided = []

def decide(R, check, prop, tier, kf, replay_dir):
    """run one check to a verdict (see DESIGN 2.9)"""
    d = Decision(check)
    r = R.verify(check)
    d.results.append(r)
    if r.status in ('broken', 'timeout', 'error'):
        d.verdict = 'broken'; d.reason = '%s: %s' % (r.status, r.reason); return d
    if r.canary is not True and not check.misuse:
        d.verdict = 'broken'; d.reason = 'vacuity guard: the end of the harness is unreachable (contradictory requires/lemmas?)'; return d
    if not r.obligations:
        d.verdict = 'broken'; d.reason = 'no obligations generated'; return d
    failed = list(r.failed)
    if check.reject_ok:
        # the property allows rejection by assertion / exception: a reachable library assertion is a rejection, not a violation
        d.rejections = len([ob for ob in failed if ob['class'] == 'lib_assert'])
        failed = [ob for ob in failed if ob['class'] != 'lib_assert']
    if check.misuse:
        # expected: at least one library assertion reachable (it fires), and no execution returns
        fired = [ob for ob in failed if ob['class'] == 'lib_assert']
        failed = [ob for ob in failed if ob['class'] != 'lib_assert']
        d.fired = len(fired)
        if not fired and not failed:
            d.verdict = 'broken'; d.reason = 'misuse check: no library assertion is reachable at all (precondition of the misuse contract unsatisfiable?)'; return d
    if not failed:
        unc = [c for c, hit in r.covers if not hit]
        if unc:
            d.verdict = 'broken'; d.reason = 'reachability guard: corner case(s) excluded by the preconditions/lemmas: ' + '; '.join(unc); return d
        return d
    # group failures: one replay per distinct input set
    narrow = None
    for ob in failed:
        if ob['class'] == 'unwind' and not check.unwind:
            d.undecided.append((ob, 'the closure now contains a loop that runs more than 6 times; this contract has no invariant for it (not covered, not a violation)')); continue
        k = match_known(kf, prop, check, ob)
        inputs = ob.get('trace_inputs') or {}
        verdict, txt = ('skipped', '')
        if check.native: verdict, txt = R.replay_native(check, inputs)
        def is_confirmed(verdict, txt, ob):
            # the replay confirms THIS obligation only if its own postcondition is among those that fail natively on these inputs
            if not verdict.startswith('confirmed'): return False
            return ob['class'] != 'ensures' or ('ENSURES_FAIL ' + (ob.get('label') or ob['desc'])) in txt
        confirmed = is_confirmed(verdict, txt, ob)
        used_inputs = inputs; mode_used = r.mode
        if not confirmed and r.mode == 'uf':
            # bounded cross-check with bit-precise narrow multipliers: either a concrete small counterexample, or
            # the obligation holds for all bounded operands (then the UF failure is a missing lemma instance: undecided)
            if narrow is None:
                narrow = R.verify(check, 'narrow:%d' % (4 if tier == 'quick' else 5)); d.results.append(narrow)
            if narrow.status in ('broken', 'timeout', 'error') or narrow.canary is not True:
                d.undecided.append((ob, 'UF-mode failure; narrow cross-check unavailable: %s %s' % (narrow.status, narrow.reason[:300]))); continue
            nob = [o for o in narrow.failed if (o.get('label') or o['desc']) == (ob.get('label') or ob['desc']) and o['class'] == ob['class']]
            if check.misuse: nob = [o for o in nob if o['class'] != 'lib_assert']
            if not nob:
                d.undecided.append((ob, 'fails with uninterpreted multiplication but holds for all operands |x|<2^%d: a lemma instance is missing for this code shape (proof incompleteness, not a violation)' % (3 if tier == 'quick' else 4)))
                continue
            ob2 = nob[0]; used_inputs = ob2.get('trace_inputs') or {}; mode_used = narrow.mode
            if check.native: verdict, txt = R.replay_native(check, used_inputs)
            confirmed = is_confirmed(verdict, txt, ob)
            ob = dict(ob); ob['trace_tail'] = ob2.get('trace_tail')
        if (check.native and not confirmed and ob['class'] == 'ensures' and k is None
                and (verdict.startswith('confirmed') or 'ALL_ENSURES_HOLD' in txt)):
            # the real code ran to completion on the verifier's inputs and THIS postcondition held: the counterexample is an artefact of the
            # verifier's memory / arithmetic model (e.g. pointer differences on symbolic objects), not a failing input
            d.undecided.append((ob, 'the counterexample does not reproduce: on these inputs the real code satisfies this postcondition natively (verifier-model artefact, not a violation)')); continue
        rec = dict(property=prop, check=check.id, function=r.fn, obligation=ob.get('label') or ob['desc'], obligation_name=ob['name'],
                   obligation_class=ob['class'], mode=mode_used, inputs=used_inputs, native_verdict=verdict, native_output=txt[-2000:],
                   cbmc_trace_tail=ob.get('trace_tail'), cbmc_cmd=r.cmd, confirmed=confirmed)
        if k is not None:
            d.known.append((k, rec)); continue
        if (ob.get('label') or '').startswith('[delegation]'):
            d.undecided.append((ob, 'the function no longer delegates to the assumed-contract algorithm in the way this contract expects; the replacement code is outside what the contract can decide')); continue
        os.makedirs(replay_dir, exist_ok=True)
        path = os.path.join(replay_dir, '%s.%s.json' % (check.id, re.sub(r'[^A-Za-z0-9]+', '_', ob['name'])[-60:]))
        json.dump(rec, open(path, 'w'), indent=1)
        d.violations.append((path, confirmed, rec))
    if d.violations: d.verdict = 'violation'
    elif d.undecided: d.verdict = 'undecided'
    return d

def replay_file(R, path):
    rec = json.load(open(path))
    check = vf.CHECKS[rec['check']]
    v, txt = R.replay_native(check, rec['inputs'])
    print('replay of %s (%s): %s' % (rec['check'], rec['obligation'], v)); print(txt)
    return 1 if v.startswith('confirmed') else 0

def main():
    ap = argparse.ArgumentParser()
    ap.add_argument('prop'); ap.add_argument('--tier', default=os.environ.get('VERIF_TIER', 'quick'))
    ap.add_argument('--replay'); ap.add_argument('--only'); ap.add_argument('--keep', action='store_true'); ap.add_argument('-j', type=int, default=9)
    ap.add_argument('--list', action='store_true'); ap.add_argument('--noevidence', action='store_true')
    a = ap.parse_args()
    seed = int(os.environ.get('VERIF_SEED', '0') or 0)
    load_specs()
    work = tempfile.mkdtemp(prefix='verif.')
    R = vf.Runner(work, keep=a.keep)
    t0 = time.time()
    try:
        if a.replay:
            return replay_file(R, a.replay)
        prop = a.prop
        checks = [c for c in vf.CHECKS.values() if prop in c.props and (a.tier == 'thorough' or c.tier == 'quick')]
        if a.only: checks = [c for c in checks if c.id in a.only.split(',')]
        if a.list:
            for c in checks: print(c.id, c.mode, c.fn or c.fn_re)
            return 0
        if not checks:
            print('no checks registered for %s' % prop); return 2
        kf = known_findings()
        replay_dir = os.path.join(vf.VERIF, 'evidence', 'replay', prop) if not a.noevidence else os.path.join(work, 'replay')
        if os.path.isdir(replay_dir): shutil.rmtree(replay_dir)
        # build instantiation units first (serially per group, they are few), then run checks in parallel
        broken_groups = {}
        groups = sorted({(c.group, c.config) for c in checks})
        with cf.ThreadPoolExecutor(max_workers=min(8, len(groups))) as ex:
            futs = {ex.submit(R.inst, g, cfg): (g, cfg) for g, cfg in groups}
            for fu in cf.as_completed(futs):
                try: fu.result()
                except vf.Broken as e: broken_groups[futs[fu]] = str(e)
        if broken_groups:
            # an instantiation unit that no longer builds takes only its own checks down (they are undecided, exit 2 unless another check reports a violation)
            for g, e in broken_groups.items(): print('BROKEN group %s: %s' % (g, e[:3000]))
            checks = [c for c in checks if (c.group, c.config) not in broken_groups]
            if not checks:
                write_evidence(prop, a.tier, seed, [], time.time()-t0, broken=list(broken_groups.values()))
                return 2
        decisions = []
        with cf.ThreadPoolExecutor(max_workers=a.j) as ex:
            futs = [ex.submit(decide, R, c, prop, a.tier, kf, replay_dir) for c in checks]
            for fu in futs: decisions.append(fu.result())
        rc = 0
        for d in decisions:
            r = d.results[0]
            line = '%-28s %-9s %4d obligations %6.1fs  %s' % (d.check.id, d.verdict, len(r.obligations), sum(x.time for x in d.results), r.mode)
            print(line)
            for k, rec in d.known:
                print('KNOWN-FINDING: property=%s %s [%s: %s]' % (prop, k['what'], d.check.id, rec['obligation']))
            for path, confirmed, rec in d.violations:
                print('VIOLATION property=%s replay=%s%s' % (prop, path, '' if confirmed else ' no-failing-input-found'))
                print('   failed obligation: %s / %s (%s) in %s' % (rec['check'], rec['obligation'], rec['obligation_name'], rec['function']))
            for ob, why in d.undecided:
                print('UNDECIDED %s / %s: %s' % (d.check.id, ob.get('label') or ob['desc'], why))
            if d.verdict == 'broken': print('BROKEN %s: %s' % (d.check.id, d.reason[:1500]))
        if any(d.verdict == 'violation' for d in decisions): rc = 1
        elif broken_groups or any(d.verdict in ('broken', 'undecided') for d in decisions): rc = 2
        if not a.noevidence: write_evidence(prop, a.tier, seed, decisions, time.time()-t0, broken=list(broken_groups.values()) or None)
        print('%s: %d checks, %d obligations, exit %d, %.1fs' % (prop, len(decisions), sum(len(d.results[0].obligations) for d in decisions), rc, time.time()-t0))
        return rc
    finally:
        if not a.keep: shutil.rmtree(work, ignore_errors=True)
        else: print('scratch kept in', work)

def write_evidence(prop, tier, seed, decisions, wall, broken=None):
    obl = 0; dis = 0; samples = []; fns = []; per_mode = {}; solver = 0.0; cut = set(); ext = set(); bounded = []; per_backend = {}; bounded_obl = 0
    per_class = {}; lemma_n = 0; viol = 0; known = 0; nfn = 0; known_obl = 0
    for d in decisions:
        r = d.results[0]
        ok_here = 0
        known_names = {rec['obligation_name'] for _, rec in d.known}
        for ob in r.obligations:
            if ob['status'] != 'SUCCESS' and ob['name'] in known_names:
                known_obl += 1; continue       # failing obligation of a recorded known finding: reported separately, not counted as an obligation of the proof
            obl += 1
            if ob['status'] == 'SUCCESS' or ((d.check.misuse or d.check.reject_ok) and ob['class'] == 'lib_assert'): dis += 1; ok_here += 1   # misuse checks: the obligation is that the assertion FIRES
            per_class[ob['class']] = per_class.get(ob['class'], 0) + 1
        per_mode[r.mode] = per_mode.get(r.mode, 0) + len(r.obligations)
        solver += sum(x.time for x in d.results)
        cut |= set(r.cut); ext |= set(r.externals)
        lemma_n += len(d.check.lemmas) if r.mode == 'uf' else 0
        viol += len(d.violations); known += len(d.known)
        if d.check.bounded: bounded.append('%s: %s' % (d.check.id, d.check.bounded))
        per_backend[getattr(r, 'solver', '?') or '?'] = per_backend.get(getattr(r, 'solver', '?') or '?', 0) + len(r.obligations)
        if d.check.bounded: bounded_obl += len(r.obligations)
        fns.append(dict(check=d.check.id, function=r.fn, mode=r.mode, backend=getattr(r, 'solver', None), profile=vf.GROUPS[d.check.group].profile, bounded=bool(d.check.bounded), obligations=len(r.obligations), discharged=ok_here, verdict=d.verdict,
                        translated_functions_in_closure=r.nfuncs, time_s=round(sum(x.time for x in d.results), 2), misuse=d.check.misuse, note=d.check.note))
        ens = [ob for ob in r.obligations if ob['class'] in ('ensures', 'lib_assert')][:2]
        if len(samples) < 12:
            for ob in ens:
                samples.append(dict(check=d.check.id, function=r.fn, obligation=ob['name'], clause=ob.get('label'), status=ob['status'], mode=r.mode))
    try:
        claimed = {c['property_id']: c['level_claimed']['category'] for c in json.load(open(os.path.join(vf.VERIF, 'MANIFEST.json')))['checks']}.get(prop)
    except Exception: claimed = None
    demangled_cut = vf.demangle([c[1:] for c in sorted(cut)]) if cut else []
    demangled_ext = vf.demangle([c[1:] for c in sorted(ext)]) if ext else []
    trusted = ['clang++-14 front end + opt sroa/mem2reg/simplifycfg (IR of the real headers)', 'tools/ll2c.py (IR -> C, instruction by instruction)',
               'CBMC 6.11 + goto-instrument --dfcc + back ends minisat / cadical (SAT) / cvc5 1.0 (SMT, UF-heavy checks); the back end that decided each check is listed per check', 'Lean 4 core (lemma schemas in lemmas/Lemmas.lean)', 'g++ == clang++ semantics for this code (native replay uses g++)']
    trusted += ['cut (body replaced by non-deterministic return): ' + x for x in demangled_cut]
    trusted += ['external (no body, assumed contract / non-deterministic): ' + x for x in demangled_ext]
    assumptions = ['template parameters are concrete instantiations (D, element type, pointer type) listed under functions_under_contract',
                   'UF-64 mode: 64-bit products of two symbolic operands are treated as mathematical integers (no-overflow assumed; overflow would be UB in the library); only instances of Lean-proved lemma schemas are assumed',
                   'all index magnitudes |x| < 2^40 (INR) in preconditions']
    if broken: assumptions.append('BROKEN RUN: ' + '; '.join(broken)[:500])
    # level follows the claim in MANIFEST.json; bounded checks are always listed (coverage.bounded) and never counted as proof
    level = claimed if claimed in ('proof', 'other') else ('other' if bounded else 'proof')
    if level == 'proof' and bounded and bounded_obl == obl: level = 'other'
    ev = dict(property_id=prop, tier=tier, seed=seed, level=level,
              coverage=dict(obligations=obl, discharged=dis, checker_cmd='tools/runner.py %s --tier %s  (per check: goto-cc; goto-instrument --dfcc harness --enforce-contract <fn>; cbmc, solver portfolio per check: minisat | cadical | cvc5, first to finish)' % (prop, tier),
                            trusted_base=trusted, samples=samples or [dict(note='no check ran')], functions_under_contract=fns, per_mode=per_mode, per_class=per_class,
                            per_backend=per_backend, obligations_in_bounded_checks=bounded_obl, lemma_instances=lemma_n, lemma_schemas_proved_by='lean 4 core (lemmas/Lemmas.lean)', solver_time_s=round(solver, 1),
                            bounded=bounded, known_findings_reported=known, undischarged_obligations_of_known_findings=known_obl, vacuity_guard='every check carries a CANARY assertion after the call that must FAIL (reachability of the end of the harness under requires+lemmas)',
                            explanation=(('BOUNDED stand-ins (not counted as proof): %d of %d obligations belong to the checks listed under coverage.bounded -- contracts of the real code checked by CBMC with all loops fully unwound (unwinding assertions on) or with narrow operands, for the stated bounds; the remaining checks are unbounded contract proofs. ' % (bounded_obl, obl)) if bounded else '') + 'contract-based deductive verification of the functions of /repo this property depends on; see DESIGN.md'),
              assumptions=assumptions, wall_s=round(wall, 1), violations=viol)
    os.makedirs(os.path.join(vf.VERIF, 'evidence'), exist_ok=True)
    json.dump(ev, open(os.path.join(vf.VERIF, 'evidence', '%s.json' % prop), 'w'), indent=1)

if __name__ == '__main__':
    sys.exit(main())
