#!/usr/bin/env python3
import sys, os, glob, importlib.util, tempfile, json
sys.path.insert(0, os.path.dirname(os.path.abspath(__file__)))
sys.path.insert(0, os.path.join(os.path.dirname(os.path.abspath(__file__)), '..', 'contracts'))
import vf
for f in sorted(glob.glob(os.path.join(vf.VERIF, 'contracts', 'c*.py'))) + [x for x in os.environ.get('EXTRA_CONTRACTS', '').split(':') if x]:
    if os.path.basename(f) == 'common.py': continue
    name = os.path.basename(f)[:-3]
    if name in sys.modules: continue
    spec = importlib.util.spec_from_file_location(name, f); mod = importlib.util.module_from_spec(spec); sys.modules[name] = mod; spec.loader.exec_module(mod)
for h in vf.POST: h()
work = '/tmp/w/try'; os.makedirs(work, exist_ok=True)
R = vf.Runner(work, keep=True)
for cid in sys.argv[1:]:
    mode = None
    if ':' in cid: cid, mode = cid.split(':', 1)
    c = vf.CHECKS[cid]
    r = R.verify(c, mode)
    print(cid, r.status, r.reason[:3000], 'obl=%d' % len(r.obligations), 'canary', r.canary, '%.1fs' % r.time, 'nfuncs', r.nfuncs)
    for ob in r.failed:
        print('  FAILED', ob['class'], ob['name'], ob.get('label', ob['desc']), ob['line'])
        if os.environ.get('BRIEF'): continue
        print('    inputs', ob.get('trace_inputs'))
        v, txt = R.replay_native(c, ob.get('trace_inputs'))
        print('    replay:', v, txt.strip()[:500])
